"""C25 — REPL results stay in step with inputs for any history (message framing of the REPL client/server).

proof:          coq/Framing/Props_C25.v over coq/Framing/Model.v (transcription of src/dummy.rs Message /
                MessageStream::send_msg / recv_msg and of src/scripts/repl_server.py MessageStream): every message
                list of any size is decoded exactly, for every chunking of the byte stream, by both receivers from
                both senders; every write chunking puts exactly the frames on the wire; `sync`: in every session
                the i-th answer is the answer to the i-th request.
correspondence: (1) Rust: the hook erg::verif::{frame, recv_all} (real send_msg/recv_msg over an in-memory stream that
                imposes the chunking) vs the extracted model on generated message lists x chunkings and raw/malformed
                streams; (2) Python: the MessageStream class exec'ed out of /repo/src/scripts/repl_server.py (ast,
                no server loop) over a fake socket (short reads, short writes) under every installed interpreter, and
                both cross pairings (Rust frames -> Python receiver, Python frames -> Rust receiver);
                (3) end-to-end: DummyVM::eval in-process against the real Python REPL server over TCP with histories
                whose source/output sizes go from 0 to 200 KB.
judge:          coq/Framing/Spec.v judge_transport / judge_session (extracted): what was received is what was sent,
                in order, without error; the i-th REPL result is the result of the i-th input.
"""
import binascii
import concurrent.futures
import functools
import tempfile
from lib.vplib import *

REGISTRY = dict(
    category="proof",
    text="Coq model of the REPL framing on both sides (src/dummy.rs Message/MessageStream, src/scripts/repl_server.py "
         "MessageStream) with byte sources/sinks that deliver arbitrary chunk sizes; theorems for every message list, size "
         "and chunking (all four sender/receiver pairings), for every short-write schedule, and `sync` by induction over "
         "every session history; tied to the code by the erg::verif hook (real send_msg/recv_msg), by the Python class "
         "exec'ed from the file under all interpreters over a chunking fake socket, and by DummyVM::eval sessions with "
         "0-200 KB inputs/outputs against the real server.",
    note="Trusted: Coq kernel, extraction (ExtrOcamlBasic) + generic OCaml driver, harness/framing (hook + py_driver.py fake "
         "socket). Not modelled: the kernel TCP stack (recv short reads/short writes are adversarial schedules; blocking on an "
         "empty open stream is not an event), read timeouts, UTF-8 encode/decode at the Python boundary (identity on the bytes "
         "of valid text; exercised with multi-byte text), the evaluation of the request itself (the handler is a parameter "
         "of `sync`). Two defects were repaired (fix: commits, see known/C25.json); no size precondition remains.",
    technique="Coq proof over hand model + correspondence (extracted model vs hook / Python class / DummyVM) + extracted judge",
    design="DESIGN.md §4 C25")

SIZES = [0, 1, 2, 255, 256, 65534, 65535, 65536, 70000, 131070, 200000]
ERRN = {0: "none", 1: "eof", 2: "fuel", 3: "overflow", 4: "write-zero", 5: "unicode", 9: "other"}
ALPHABET = ["a", "b", "z", "0", " ", "\n", "é", "ß", "漢", "あ", "\U0001f600", "€"]


# ------------------------------------------------------------------------------------------ generators
def rnd_bytes(rng, n):
    return rng.getrandbits(8 * n).to_bytes(n, "big") if n else b""


def rnd_text(rng, n):
    """valid UTF-8 of exactly n bytes, multi-byte characters mixed in (so that frame and chunk boundaries fall
    inside characters)"""
    block = "".join(rng.choice(ALPHABET) for _ in range(rng.randint(1, 40))).encode("utf-8")
    out = (block * (n // len(block) + 1))[:n]
    # cut back to a character boundary, pad with ASCII
    while out and (out[-1] & 0xC0) == 0x80:
        out = out[:-1]
    if out and out[-1] >= 0xC0:
        out = out[:-1]
    out = out + b"x" * (n - len(out))
    out.decode("utf-8")
    return out


def rnd_size(rng, big_ok):
    r = rng.random()
    if r < 0.45:
        return rng.randint(0, 12)
    if r < 0.75:
        return rng.randint(13, 700)
    if r < 0.9 or not big_ok:
        return rng.choice([0, 1, 2, 255, 256]) if rng.random() < 0.5 else rng.randint(700, 9000)
    return rng.choice(SIZES[5:]) if rng.random() < 0.7 else rng.randint(60000, 200000)


def gen_chunks(rng, total):
    """a read/write schedule for a stream of `total` bytes"""
    k = rng.randrange(8)
    if k == 0:
        return []
    if k == 1:
        return [1] * min(total, 80000)          # one byte at a time
    if k == 2:
        return [rng.randint(1, 7) for _ in range(min(total, 4000))]
    if k == 3:
        return [rng.choice([0, 1, 2, 3]) for _ in range(min(total, 4000))]
    if k == 4:                                  # cut around the header fields
        return [rng.choice([1, 2, 3, 4]), rng.choice([1, 2, 65535, 65536]), rng.choice([1, 65534, 65535, 3])] + \
               [rng.choice([1, 2, 3, 65535, 65538]) for _ in range(12)]
    if k == 5:
        return [rng.randint(1, 70000) for _ in range(40)]
    if k == 6:
        return [2, 1] * min(total, 2000)
    return [rng.randint(1, max(1, total)) for _ in range(6)]


def compositions(n):
    """every way to cut n bytes into successive chunks"""
    if n == 0:
        yield []
        return
    for mask in range(1 << (n - 1)):
        out, run = [], 1
        for i in range(n - 1):
            if mask >> i & 1:
                out.append(run)
                run = 1
            else:
                run += 1
        out.append(run)
        yield out


def hx(b):
    return binascii.hexlify(bytes(b)).decode()


def msgs_sx(msgs):
    return [[i, list(d)] for i, d in msgs]


def canon_msgs(ms):
    return [[int(m[0]), list(m[1])] for m in ms]


# ------------------------------------------------------------------------------------------ Python side driver
class PyDriver:
    def __init__(self, ctx, server_file=None):
        self.script = os.path.join(VERIF, "harness", "framing", "py_driver.py")
        self.file = server_file or os.path.join(REPO, "src", "scripts", "repl_server.py")
        if not os.path.exists(self.file):
            raise TieBroken("src/scripts/repl_server.py is gone")

    def run(self, exe, cases, timeout=1200):
        inp = "\n".join(json.dumps(c) for c in cases) + "\n"
        p = sh([exe, self.script, self.file], inp=inp, timeout=timeout)
        if "TIE-BROKEN" in p.stderr or "TIE-BROKEN" in p.stdout:
            raise TieBroken("repl_server.py no longer defines class MessageStream")
        lines = [l for l in p.stdout.splitlines() if l.strip()]
        if p.returncode != 0 or len(lines) != len(cases):
            raise TieBroken("MessageStream of repl_server.py cannot be driven under %s: %s" % (exe, p.stderr[-1500:]))
        return [json.loads(l) for l in lines]


def py_msgs(res):
    return [[m[0], list(bytes.fromhex(m[1]))] for m in res["msgs"]]


# ------------------------------------------------------------------------------------------ the three ties
# Cases with 200 KB payloads make s-expression lines of a megabyte; both sides print the same canonical text
# (single spaces), so results are compared as text lines and only parsed when they differ.
@functools.lru_cache(maxsize=8192)
def btxt(b):
    return "(" + " ".join(map(str, b)) + ")"


def ltxt(l):
    return "(" + " ".join(map(str, l)) + ")"


def mtxt(ms, flag=False):
    return "(" + " ".join("(%d %s%s)" % (i, "1 " if flag else "", btxt(bytes(d))) for i, d in ms) + ")"


def run_lines(cmd, lines, env=None, timeout=1800):
    if not lines:
        return []
    p = sh(cmd, inp="\n".join(lines) + "\n", env=env, timeout=timeout)
    out = [l for l in p.stdout.split("\n") if l.strip()]
    if p.returncode == 0 and len(out) == len(lines):
        return out
    res = []        # a crash (process::exit, abort) takes the rest of the batch with it: run one by one
    for l in lines:
        q = sh(cmd, inp=l + "\n", env=env, timeout=timeout)
        o = [x for x in q.stdout.split("\n") if x.strip()]
        res.append(o[0] if (q.returncode == 0 and o) else "(-997 %d)" % q.returncode)
    return res


class Tie:
    """collects cases, runs implementation and model in batches, records disagreements and judge failures"""

    def __init__(self, ctx):
        self.ctx = ctx
        self.h = Harness(ctx, "framing", env=ctx.erg_env())
        self.model = ctx.model("Framing")
        self.py = PyDriver(ctx)
        self.corr = []      # (what, case, impl, model)
        self.fail = []      # (what, case, impl, judge)

    def impl(self, lines):
        return run_lines([self.h.bin], lines, env=self.h.env)

    def mod(self, lines):
        return run_lines(["bash", "-c", "ulimit -s unlimited 2>/dev/null; exec %s" % self.model.bin], lines)

    # -- judge (extracted judge_transport) on (sent msgs text, got msgs text, err)
    def judge(self, triples):
        out = self.mod(["(3 %s (%s %d))" % (s, g, 0 if e == 0 else 1) for s, g, e in triples])
        return [o.strip() == "1" for o in out]

    def judge_fail(self, bad):
        """bad: list of (what, case, sent_txt, got_txt, err, impl_brief); appends those the extracted judge rejects"""
        for (what, case, st, gt, e, br), ok in zip(bad, self.judge([(b[2], b[3], b[4]) for b in bad])):
            if not ok:
                self.fail.append((what + " (err=%s)" % ERRN.get(e, "?"), case, br, "judge_transport=false"))

    @staticmethod
    def split_round(line):
        """'((stream) (msgs) err)' -> (msgs text, err) or None"""
        try:
            x = sx_load(line)
            if len(x) == 3 and isinstance(x[2], int):
                return mtxt([(m[0], bytes(m[1])) for m in x[1]]), x[2]
        except Exception:
            pass
        return None

    # -- Rust: message lists x read chunkings through the hook
    def rust_round(self, cases, tag):
        """cases: list of (msgs, rchunks); msgs = [(inst 0..6, bytes)]"""
        impl = self.impl(["(2 %s %s)" % (mtxt(ms, True), ltxt(ch)) for ms, ch in cases])
        mod = self.mod(["(2 0 %s %s)" % (mtxt(ms), ltxt(ch)) for ms, ch in cases])
        bad = []
        for (ms, ch), im, mo in zip(cases, impl, mod):
            self.account("rust-" + tag, ms, ch)
            case = self.case_round("rust", ms, ch)
            if im.startswith("(-99"):
                self.fail.append(("Rust framing panicked or died", case, im[:300], "panic"))
                continue
            sent = mtxt(ms)
            if not im.endswith(") " + sent + " 0)"):
                sp = self.split_round(im)
                bad.append(("Rust receiver did not return the messages that were sent", case, sent, sp[0] if sp else "()", sp[1] if sp else 9, self.brief(im)))
            if im != mo:
                self.corr.append(("Rust hook and model differ on a framed stream", case, self.brief(im), self.brief(mo)))
        self.judge_fail(bad)

    # -- Rust: send under short writes
    def rust_send(self, cases):
        impl = self.impl(["(0 %d 1 %s %s)" % (i, btxt(d), ltxt(w)) for (i, d), w in cases])
        mod = self.mod(["(0 0 (%d %s) %s)" % (i, btxt(d), ltxt(w)) for (i, d), w in cases])
        unch = self.impl(["(0 %d 1 %s ())" % (i, btxt(d)) for (i, d), w in cases])
        for ((i, d), w), im, mo, un in zip(cases, impl, mod, unch):
            self.ctx.count("rust-send")
            self.ctx.case(["rs", i, hx(d[:64]), len(d), w[:50]], nontrivial=len(w) > 0 and len(d) > 0)
            case = {"side": "rust", "inst": i, "data_hex": hx(d), "wchunks": w}
            if "(%s 0)" % im != mo:
                self.corr.append(("Rust send_msg and model differ under short writes", case, self.brief(im), self.brief(mo)))
            if im != un:     # property: the wire carries the same bytes whatever the write chunking
                self.fail.append(("Rust send_msg put different bytes on the wire under short writes than without", case, self.brief(im),
                                  "wire != wire without short writes"))

    # -- Rust: raw (malformed / truncated / foreign) streams
    def rust_raw(self, cases):
        impl = self.impl(["(1 %s %s)" % (btxt(b), ltxt(ch)) for b, ch in cases])
        mod = self.mod(["(1 0 %s %s)" % (btxt(b), ltxt(ch)) for b, ch in cases])
        for (b, ch), im, mo in zip(cases, impl, mod):
            self.ctx.count("rust-raw")
            self.ctx.case(["rr", hx(b[:64]), len(b), ch[:50]], nontrivial=False)
            case = {"side": "rust", "raw_hex": hx(b), "rchunks": ch}
            if im.startswith("(-99"):
                self.fail.append(("Rust receiver panicked on a raw stream", case, im[:300], "panic"))
            elif im != mo:
                self.corr.append(("Rust hook and model differ on a raw stream", case, self.brief(im), self.brief(mo)))

    # -- Python: MessageStream of repl_server.py under one interpreter
    def py_batch(self, ver, rounds, sends, raws, cross):
        """rounds: (msgs, rchunks) python->python; sends: ((inst, data), wchunks); raws: (bytes, rchunks);
        cross: (msgs, rchunks): Rust frames (hook) -> Python receiver and Python frames -> Rust receiver (hook)"""
        exe = PY_VERSIONS[ver]
        cases = [{"mode": "round", "msgs": [[i, hx(d)] for i, d in ms], "rchunks": ch} for ms, ch in rounds]
        cases += [{"mode": "send", "inst": i, "data": hx(d), "wchunks": w} for (i, d), w in sends]
        cases += [{"mode": "send", "inst": i, "data": hx(d), "wchunks": []} for (i, d), w in sends]
        cases += [{"mode": "recv", "bytes": hx(b), "rchunks": ch} for b, ch in raws]
        # cross pairings: streams framed by the other side's real code
        rust_wire = []
        if cross:
            flat = [(i, d) for ms, ch in cross for i, d in ms]
            wires = iter(self.impl(["(0 %d 1 %s ())" % (i, btxt(d)) for i, d in flat]))
            for ms, ch in cross:
                rust_wire.append(b"".join(bytes(sx_load(next(wires))) for _ in ms))
        cases += [{"mode": "recv", "bytes": hx(w), "rchunks": ch} for (ms, ch), w in zip(cross, rust_wire)]
        cases += [{"mode": "round", "msgs": [[i, hx(d)] for i, d in ms], "rchunks": []} for ms, ch in cross]
        res = self.py.run(exe, cases)
        it = iter(res)
        pm = lambda r: mtxt([(m[0], bytes.fromhex(m[1])) for m in r.get("msgs", [])])
        mod_round = iter(self.mod(["(2 1 %s %s)" % (mtxt(ms), ltxt(ch)) for ms, ch in rounds]))
        bad = []
        for ms, ch in rounds:
            r = next(it)
            mo = next(mod_round)
            self.account("py%s-round" % ver, ms, ch)
            case = self.case_round("python", ms, ch, ver)
            sent, got = mtxt(ms), pm(r)
            im = "(%s %s %d)" % (btxt(bytes.fromhex(r.get("stream", ""))), got, r["err"])
            if not (got == sent and r["err"] == 0):
                bad.append(("Python %s receiver did not return the messages that were sent" % ver, case, sent, got, r["err"], self.brief(im)))
            if im != mo:
                self.corr.append(("Python %s MessageStream and model differ on a framed stream" % ver, case, self.brief(im), self.brief(mo)))
        mod_send = iter(self.mod(["(0 1 (%d %s) %s)" % (i, btxt(d), ltxt(w)) for (i, d), w in sends]))
        sent_res = [next(it) for _ in sends]
        unch_res = [next(it) for _ in sends]
        for ((i, d), w), r, ru in zip(sends, sent_res, unch_res):
            mo = next(mod_send)
            un = "(%s %d)" % (btxt(bytes.fromhex(ru["wire"])), ru["err"])
            self.ctx.count("py%s-send" % ver)
            self.ctx.case(["ps", i, hx(d[:64]), len(d), w[:50]], nontrivial=len(w) > 0 and len(d) > 0)
            im = "(%s %d)" % (btxt(bytes.fromhex(r["wire"])), r["err"])
            case = {"side": "python", "py": ver, "inst": i, "data_hex": hx(d), "wchunks": w}
            if im != mo:
                self.corr.append(("Python %s send_msg and model differ under short writes" % ver, case, self.brief(im), self.brief(mo)))
            if im != un or r["err"] != 0:
                self.fail.append(("Python %s send_msg %s" % (ver, "failed (err=%s)" % ERRN.get(r["err"], "?") if r["err"] else
                                                            "put different bytes on the wire under short writes than without"),
                                  case, self.brief(im), "wire != wire without short writes" if not r["err"] else "send failed"))
        mod_raw = iter(self.mod(["(1 1 %s %s)" % (btxt(b), ltxt(ch)) for b, ch in raws]))
        for b, ch in raws:
            r = next(it)
            mo = next(mod_raw)
            self.ctx.count("py%s-raw" % ver)
            self.ctx.case(["pr", hx(b[:64]), len(b), ch[:50]], nontrivial=False)
            if r["err"] == 5:
                continue    # invalid UTF-8 in a raw stream: outside the model (payloads are text)
            im = "(%s %d)" % (pm(r), r["err"])
            if im != mo:
                self.corr.append(("Python %s MessageStream and model differ on a raw stream" % ver,
                                  {"side": "python", "py": ver, "raw_hex": hx(b), "rchunks": ch}, self.brief(im), self.brief(mo)))
        for (ms, ch), w in zip(cross, rust_wire):
            r = next(it)
            self.account("rust->py%s" % ver, ms, ch)
            sent, got = mtxt(ms), pm(r)
            if not (got == sent and r["err"] == 0):
                bad.append(("Python %s receiver did not return the messages the Rust sender framed" % ver,
                            self.case_round("rust->python", ms, ch, ver), sent, got, r["err"], self.brief([hx(w[:40]), got, r["err"]])))
        back = [bytes.fromhex(next(it).get("stream", "")) for _ in cross]
        rr = self.impl(["(1 %s %s)" % (btxt(b), ltxt(ch)) for b, (ms, ch) in zip(back, cross)])
        for (ms, ch), b, im in zip(cross, back, rr):
            self.account("py%s->rust" % ver, ms, ch)
            sent = mtxt(ms)
            if im != "(%s 0)" % sent:
                x = None if im.startswith("(-99") else sx_load(im)
                bad.append(("Rust receiver did not return the messages the Python %s sender framed" % ver,
                            self.case_round("python->rust", ms, ch, ver), sent,
                            mtxt([(m[0], bytes(m[1])) for m in x[0]]) if x else "()", x[1] if x else 9, self.brief(im)))
        self.judge_fail(bad)

    # -- bookkeeping
    def account(self, kind, ms, ch):
        self.ctx.count(kind)
        total = sum(len(d) for _, d in ms)
        for _, d in ms:
            n = len(d)
            self.ctx.count("size " + ("0" if n == 0 else "1-255" if n < 256 else "256-65534" if n < 65535 else "65535" if n == 65535
                                      else "65536-131069" if n < 131070 else ">=131070"))
        canon = [kind.split("-")[0], [[i, len(d), hx(d[:48])] for i, d in ms], ch[:60], len(ch)]
        nt = total > 0 and len(ch) > 0
        self.ctx.case(canon, nontrivial=nt,
                      sample={"kind": kind, "msgs(inst, bytes, first bytes hex)": [[i, len(d), hx(d[:16])] for i, d in ms][:6], "chunks": ch[:20]}
                      if nt and len(self.ctx.cov["samples"]) < 4 and (total > 65535 or len(self.ctx.cov["samples"]) < 2) else None)

    @staticmethod
    def case_round(side, ms, ch, ver=None):
        return {"side": side, "py": ver, "msgs": [[i, hx(d)] for i, d in ms], "rchunks": ch,
                "encoding": "msgs = [inst, payload hex]; rchunks = bytes delivered per read (min 1; then unlimited)"}

    @staticmethod
    def brief(x, lim=400):
        s = x if isinstance(x, str) else json.dumps(x, default=str)
        return s if len(s) <= lim else s[:lim] + "...(%d chars)" % len(s)


# ------------------------------------------------------------------------------------------ case construction
def build_cases(ctx, text):
    """text=True: payloads are valid UTF-8 (Python side); returns rounds, sends, raws"""
    rng = ctx.rng
    mk = rnd_text if text else rnd_bytes
    rounds, sends, raws = [], [], []
    # every listed size once, alone and followed by a small message (a mis-framed tail shows in the next message)
    for n in SIZES:
        d = mk(rng, n)
        rounds.append(([(rng.randint(0, 6), d), (6, b"next")], []))
        rounds.append(([(rng.randint(1, 6), d), (5, b"")], gen_chunks(rng, n + 14)))
    big = [n for n in SIZES if n >= 65534]
    rounds.append(([(1, mk(rng, rng.choice(big))), (6, mk(rng, rng.choice(big))), (2, b"z")], [rng.randint(1, 70000) for _ in range(30)]))
    rounds.append(([(6, mk(rng, 65535)), (6, mk(rng, 65535)), (6, b"")], [65535, 3, 65535, 3, 3, 65535]))
    rounds.append(([(6, mk(rng, 70000))], [1] * 70010))
    n_rand = ctx.scale(260, 2500)
    n_big = ctx.scale(4, 12)
    for k in range(n_rand):
        nm = rng.randint(1, 6)
        ms = [(rng.randint(0, 6), mk(rng, rnd_size(rng, k < n_big))) for _ in range(nm)]
        rounds.append((ms, gen_chunks(rng, sum(len(d) + 3 for _, d in ms))))
    for k in range(ctx.scale(60, 600)):
        d = mk(rng, rnd_size(rng, k < 3))
        sends.append(((rng.randint(0, 6), d), gen_chunks(rng, len(d) + 3) or [1, 2]))
    for n in (65535, 70000):
        sends.append(((1, mk(rng, n)), [rng.randint(1, 30000) for _ in range(20)]))
    # malformed stream: random bytes, truncated frames, frames with foreign instruction bytes
    for k in range(ctx.scale(120, 1500)):
        r = rng.random()
        if r < 0.35:
            b = bytes([rng.randrange(256), 0, rng.randint(0, 9)]) + (mk(rng, rng.randint(0, 12)))
        elif r < 0.7:
            body = mk(rng, rng.randint(0, 300))
            b = bytes([rng.randint(0, 255)]) + len(body).to_bytes(2, "big") + body
            b = b[:rng.randint(0, len(b))] if rng.random() < 0.5 else b + bytes([rng.randint(0, 8), 0, 0])
        else:
            b = bytes([rng.randint(0, 7), 0xFF, 0xFF]) + mk(rng, rng.choice([3, 100, 65535, 65534])) + bytes([1, 0, 1, 65])
        raws.append((b, gen_chunks(rng, len(b))))
    return rounds, sends, raws


def exhaustive_small(ctx):
    """every chunking of short framed streams"""
    streams = [[(6, b"hi"), (5, b"")], [(1, b"A"), (2, b"BC")], [(3, b""), (4, b""), (6, b"x")]]
    if ctx.thorough:
        streams += [[(6, b"abc"), (1, b"de"), (5, b"")], [(0, b"\xc3\xa9"), (6, b"1234")]]
    out = []
    for ms in streams:
        total = sum(len(d) + 3 for _, d in ms)
        for ch in compositions(total):
            out.append((ms, ch))
    return out


# ------------------------------------------------------------------------------------------ end-to-end sessions
def gen_history(rng, n_inputs, biggest, lit_cap=50000):
    """REPL inputs with the result each must produce (a tag makes every result identify its own input)"""
    hist = []
    var = None
    for k in range(n_inputs):
        tag = "t%d_%d:" % (k, rng.randint(100, 999))
        r = rng.random()
        size = rng.choice([0, 1, 200, 17000, 65535 - len(tag), 65536, 70000, biggest]) if rng.random() < 0.6 else rng.randint(0, biggest)
        ch = rng.choice("abcxyz")
        if r < 0.4:          # large output from a small input
            hist.append(('print! "%s" + "%s" * %d' % (tag, ch, size), tag + ch * size))
        elif r < 0.65:       # large input (a literal), small output
            size = min(size, lit_cap)
            var = ("v%d" % k, ch * size)
            hist.append(('%s = "%s"' % var, ""))
            hist.append(('print! "%s"' % tag, tag))
        elif r < 0.8 and var:  # large output from an earlier large input
            hist.append(('print! "%s" + %s' % (tag, var[0]), tag + var[1]))
        else:
            hist.append(('print! "%s"' % tag, tag))
    return hist


def fixed_histories():
    a = "a" * 70000
    return [
        [('print! "h0:" + "a" * 70000', "h0:" + a), ('print! "h1"', "h1"), ('print! "h2:" + "b" * 65533', "h2:" + "b" * 65533),
         ('print! "h3"', "h3"), ('print! "h4:" + "c" * 200000', "h4:" + "c" * 200000), ('print! "h5"', "h5")],
        [('w = "%s"' % ("q" * 40000), ""), ('print! "k1"', "k1"), ('print! "k2:" + w + w', "k2:" + "q" * 80000), ('print! "k3"', "k3")],
    ]


def run_sessions(tie, hists, py_cmd=""):
    ctx = tie.ctx

    def one(h):
        return tie.h.run([[3, py_cmd, [src for src, _ in h]]], timeout=900)[0]
    with concurrent.futures.ThreadPoolExecutor(max_workers=4) as ex:
        outs = list(ex.map(one, hists))
    triples = []
    for h, out in zip(hists, outs):
        ctx.count("session" + ("" if not py_cmd else " (%s)" % os.path.basename(py_cmd)))
        sizes = [[len(s), len(e)] for s, e in h]
        ctx.case(["e2e", py_cmd, [[s[:40], len(s), len(e)] for s, e in h]], nontrivial=any(a > 16500 or b > 65535 for a, b in sizes),
                 sample={"kind": "session", "inputs(src prefix, src bytes, expected result bytes)": [[s[:30], len(s), len(e)] for s, e in h]})
        for a, b in sizes:     # the request is the compiled code hex-escaped: 4 bytes per byte of a literal
            ctx.count("e2e request>65535 (source literal>16K)" if a > 16500 else "e2e request<=65535")
            ctx.count("e2e output>65535" if b > 65535 else "e2e output<=65535")
        if not isinstance(out, list) or (out and out[0] in (-997, -999)):
            got, err = [], 9      # client died (process::exit after a framing error) or panicked
        else:
            got = [sx_str(r[1]) if r[0] == 1 else "<compile errors: %s>" % r[1] for r in out]
            err = 0 if len(out) == len(h) else 9
        triples.append((h, got, err, out))
    verdicts = tie.judge([(mtxt([(1, e.encode()) for _, e in h]), mtxt([(1, g.encode()) for g in got]), err) for h, got, err, _ in triples])
    for (h, got, err, out), ok in zip(triples, verdicts):
        if ok:
            continue

        def fails(sub):
            o = tie.h.run([[3, py_cmd, [s for s, _ in sub]]], timeout=900)[0]
            if not isinstance(o, list) or (o and o[0] in (-997, -999)):
                return True
            return [sx_str(r[1]) if r[0] == 1 else None for r in o] != [e for _, e in sub]
        if not fails(h):
            # sessions run in parallel and each picks a free TCP port before its server binds it: re-run alone first
            ctx.notes.append("a REPL session failed when run in parallel with others and passed when re-run alone (environment)")
            continue
        first = next((i for i, (s, e) in enumerate(h) if i >= len(got) or got[i] != e), None)
        small = shrink_list(h[:(first or 0) + 1], fails, budget=12) if first is not None else h
        tie.fail.append(("REPL session: result %s is not the result of input %s (client/server out of step or dead)" % (first, first),
                         {"side": "e2e", "py_command": py_cmd, "inputs": [[s if len(s) < 300 else s[:120] + "...(%d bytes)" % len(s), len(e)] for s, e in small],
                          "inputs_full": [s for s, _ in small], "expected_full": [e for _, e in small],
                          "expected": [e if len(e) < 200 else e[:80] + "...(%d bytes)" % len(e) for _, e in small]},
                         Tie.brief([g if len(g) < 200 else g[:80] + "...(%d)" % len(g) for g in got] if got else out), "judge_session=false"))


# ------------------------------------------------------------------------------------------ known defects (fixed)
def fixed_witnesses(tie):
    """the witnesses of the repaired defects (the `_refuted` theorems of the `_nofix` model): on the current code
    they must now satisfy the judge; on the Python file as it was before the fix commit they must reproduce."""
    ctx = tie.ctx
    kn = os.path.join(VERIF, "known", "C25.json")
    if not os.path.exists(kn):
        return
    entries = json.load(open(kn))
    pre = None
    for e in entries:
        if e.get("status") == "fixed" and e.get("commit") and "repl_server.py" in e.get("site", ""):
            p = sh(["git", "-C", REPO, "show", "%s^:src/scripts/repl_server.py" % e["commit"]])
            if p.returncode == 0 and (pre is None or len(p.stdout) < len(pre)):
                pre = p.stdout     # the oldest version = before the first Python fix
    big = b"a" * 65536
    w_round = [([(6, b"hi")], [2])]
    w_send = [((1, b"hij"), [4]), ((1, big), [])]
    exe = PY_VERSIONS["3.11"]
    if pre is not None and "_recv_exact" not in pre:
        with tempfile.NamedTemporaryFile("w", suffix=".py", delete=False) as f:
            f.write(pre)
        try:
            old = PyDriver(ctx, f.name)
            cases = [{"mode": "round", "msgs": [[i, hx(d)] for i, d in ms], "rchunks": ch} for ms, ch in w_round] + \
                    [{"mode": "send", "inst": i, "data": hx(d), "wchunks": w} for (i, d), w in w_send]
            res = old.run(exe, cases)
            mo = tie.model.run([[2, 11, msgs_sx(ms), ch] for ms, ch in w_round] + [[0, 11, [i, list(d)], w] for (i, d), w in w_send])
            im = [[list(bytes.fromhex(res[0].get("stream", ""))), py_msgs(res[0]), res[0]["err"]]] + \
                 [[list(bytes.fromhex(r["wire"])), r["err"]] for r in res[1:]]
            same = im == mo
            repro = py_msgs(res[0]) != [[6, [104, 105]]] and res[1]["wire"] != hx(b"\x01\x00\x03hij") and res[2]["err"] == 3
            ctx.notes.append("pre-fix repl_server.py (from git history): the three Python witnesses %s; `_nofix` model %s on them" %
                             ("reproduce" if repro else "do NOT reproduce", "agrees" if same else "DISAGREES"))
            ctx.cov["prefix_witness_replay"] = {"reproduce": repro, "nofix_model_agrees": same}
        finally:
            os.unlink(f.name)
    # the Rust witness on the `_nofix` model vs today's code (must now pass)
    tie.rust_round([([(6, big), (6, b"b")], [])], "fixed-witness")
    tie.py_batch("3.11", w_round + [([(1, big), (1, b"b")], [])], w_send, [], [([(6, big), (6, b"b")], [3, 65535, 1])])


# ------------------------------------------------------------------------------------------ run / replay
def run(ctx):
    ctx.cov["rule"] = ("message lists (1-6 messages, instruction 0..6, payload sizes 0,1,2,255,256,65534,65535,65536,70000,131070,200000 "
                       "and random; random bytes for Rust, multi-byte UTF-8 text for Python) x read chunkings (all at once, 1-byte, "
                       "1-7, 0-3, cuts around header fields and the 65535 boundary, random large) from the seeded PRNG; every "
                       "chunking of short streams exhaustively; short-write schedules for send; raw malformed/truncated streams; "
                       "REPL sessions (DummyVM::eval against the real server) with tagged inputs of 0-200 KB source/output. "
                       "non-trivial = distinct case with a non-empty payload and a non-empty chunk schedule (sessions: some "
                       "input or output above 65535 bytes)")
    ctx.cov["trusted_base"] = ["Coq 8.16.1 kernel", "extraction (ExtrOcamlBasic only) + extract/driver.ml",
                               "harness/framing/src/main.rs + hook erg::verif (ChunkedStream imposes the schedule on the real send_msg/recv_msg)",
                               "harness/framing/py_driver.py (fake socket; class exec'ed from repl_server.py by ast)",
                               "modelled, not verified: std Read::read_exact / Write::write_all and CPython sendall as loops around read/write/send"]
    ctx.assumptions = ["a read on an empty stream whose peer is still open blocks until data arrives (only end-of-file is an event)",
                       "payloads are valid UTF-8 text (Rust String / Python str); encode/decode at the Python boundary is the identity on those bytes",
                       "instruction codes are the protocol's 0..6 (Rust enum Inst); no read timeout fires (cfg.py_server_timeout)"]
    proof = ctx.coq(["Framing/Props_C25.v"])
    tie = Tie(ctx)
    # corpus first
    corpus = os.path.join(VERIF, "corpus", "C25")
    cr = []
    if os.path.isdir(corpus):
        for f in sorted(os.listdir(corpus)):
            c = json.load(open(os.path.join(corpus, f)))
            if "msgs" in c:
                cr.append(([(i, bytes.fromhex(d)) for i, d in c["msgs"]], c.get("rchunks", [])))
    # (1) Rust
    rounds, sends, raws = build_cases(ctx, text=False)
    ex = exhaustive_small(ctx)
    ctx.cov["exhaustive_small_scope"] = "every chunking of %d short framed streams (%d cases)" % (len(set(id(m) for m, _ in ex)), len(ex))
    tie.rust_round(cr + rounds, "round")
    tie.rust_round(ex, "allsplits")
    tie.rust_send(sends)
    tie.rust_raw(raws)
    ctx.log("Rust tie done: %d cases" % ctx.cov["evaluations"])
    # (2) Python, every interpreter
    vers = sorted(PY_VERSIONS, key=lambda v: [int(x) for x in v.split(".")])
    prounds, psends, praws = build_cases(ctx, text=True)
    pcr = [c for c in cr if all(_valid_utf8(d) for _, d in c[0])]
    for n, ver in enumerate(vers):
        if not os.path.exists(PY_VERSIONS[ver]):
            ctx.notes.append("interpreter %s not installed" % ver)
            continue
        # the whole set under the interpreter the REPL uses by default (python3 = 3.11), a rotating share under the
        # others (every case runs under 3.11 and one more interpreter); the cross pairings are spread over the interpreters
        full = ver == "3.11"
        sel = (lambda l: l) if full else (lambda l: l[n::len(vers)])
        small = [r for r in prounds if sum(len(d) for _, d in r[0]) < 300000]
        cross = small[n::len(vers)][:ctx.scale(40, 300)]
        tie.py_batch(ver, sel(pcr + prounds) + sel(ex), sel(psends), sel(praws), cross)
        ctx.log("Python %s tie done: %d cases" % (ver, ctx.cov["evaluations"]))
    # model-level sessions under hostile schedules (validates the session model's own judge by execution)
    srounds = []
    for _ in range(ctx.scale(30, 300)):
        h = []
        for _ in range(ctx.rng.randint(1, 5)):
            d = rnd_bytes(ctx.rng, rnd_size(ctx.rng, ctx.rng.random() < 0.1))
            h.append([[6, list(d)]] + [gen_chunks(ctx.rng, len(d) + 3)[:3000] for _ in range(4)])
        srounds.append(h)
    for h, o in zip(srounds, tie.mod([sx_dump([4, 0, h]) for h in srounds])):
        ctx.count("model-session")
        o = sx_load(o)
        if o[1] != 0 or o[0] != o[2]:
            tie.corr.append(("session model out of step with its reference (contradicts theorem sync)", {"rounds": Tie.brief(h)}, Tie.brief(o[0]), Tie.brief(o[2])))
    # (3) end to end
    hists = fixed_histories()[:ctx.scale(1, 2)]
    for _ in range(ctx.scale(2, 8)):
        hists.append(gen_history(ctx.rng, ctx.rng.randint(4, 7), ctx.rng.choice([70000, 131070, 200000]), ctx.scale(50000, 200000)))
    ctx.log("model sessions done")
    run_sessions(tie, hists)
    ctx.log("REPL sessions done: %d histories" % len(hists))
    if ctx.thorough:
        for ver in vers:
            # erg generates code for 3.7 .. 3.12 (serialize.rs get_ver_from_magic_num); 3.11 is the default above.
            # 3.12 is left out: the interpreter itself segfaults on the first REPL input (`print! "h0"`), a code
            # generation problem of that target (properties C13/C14), before any framing question arises.
            if ver in ("3.7", "3.9", "3.10") and os.path.exists(PY_VERSIONS[ver]):
                run_sessions(tie, [fixed_histories()[0][:4], gen_history(ctx.rng, 4, 70000)], PY_VERSIONS[ver])
    fixed_witnesses(tie)
    verdict(ctx, tie, proof)


def _valid_utf8(b):
    try:
        bytes(b).decode("utf-8")
        return True
    except UnicodeDecodeError:
        return False


def verdict(ctx, tie, proof):
    ctx.cov["correspondence_disagreements"] = len(tie.corr)
    ctx.cov["judge_failures"] = len(tie.fail)
    seen = set()
    # one failing input per kind of failure (sessions first: they are what the user sees), at most 5
    order = sorted(tie.fail, key=lambda f: 0 if f[1].get("side") == "e2e" else 1)
    for what, case, impl, judge in order:
        key = re.sub(r"\d+(\.\d+)?", "", what.split("(")[0]) + str(case.get("side")).split("/")[0]
        if key in seen or len(seen) >= 5:
            continue
        seen.add(key)
        case = shrink_case(tie, case)
        ctx.violation("failing-input", what, case=case, impl=impl, judge=judge)
        save_corpus(ctx, case)
    if not tie.fail and (tie.corr or not proof.ok):
        what = []
        if not proof.ok:
            what.append("theorem(s) no longer check: " + proof.summary())
        if tie.corr:
            what.append("%d cases on which model and code differ, none of which fails the judge (first: %s)" % (len(tie.corr), tie.corr[0][0]))
        first = tie.corr[0] if tie.corr else None
        ctx.violation("broken-correspondence" if tie.corr else "broken-theorem", "; ".join(what),
                      case=first[1] if first else None, impl=first[2] if first else None, model=first[3] if first else None,
                      theorem=proof.summary() or None, no_input=True)


def shrink_case(tie, case):
    """shrink a failing framed-stream case: fewer messages, shorter chunk schedule, shorter payloads"""
    side = str(case.get("side"))
    if "msgs" not in case or side not in ("rust", "python"):
        return case
    ms = [(i, bytes.fromhex(d)) for i, d in case["msgs"]]
    ch = case["rchunks"]
    ver = case.get("py") or "3.11"

    def bad(ms2, ch2):
        if side == "rust":
            im = tie.impl(["(2 %s %s)" % (mtxt(ms2, True), ltxt(ch2))])[0]
            return not im.endswith(") " + mtxt(ms2) + " 0)")
        if not all(_valid_utf8(d) for _, d in ms2):
            return False
        r = tie.py.run(PY_VERSIONS[ver], [{"mode": "round", "msgs": [[i, hx(d)] for i, d in ms2], "rchunks": ch2}])[0]
        return not (r["err"] == 0 and [[m[0], m[1]] for m in r["msgs"]] == [[i, hx(d)] for i, d in ms2])
    try:
        ms = shrink_list(ms, lambda sub: bad(sub, ch), budget=20)
        ch = shrink_list(ch, lambda sub: bad(ms, sub), budget=40) if len(ch) > 1 else ch
        for k in range(len(ms)):                     # shorter payloads: a prefix of the payload still fails?
            i, d = ms[k]
            for n in (0, 1, 2, 3, 8, 65535, 65536):
                if n < len(d) and bad(ms[:k] + [(i, d[:n])] + ms[k + 1:], ch):
                    ms[k] = (i, d[:n])
                    break
        if not bad(ms, ch):
            return case
    except Exception:
        return case
    return Tie.case_round(side, ms, ch, case.get("py"))


def save_corpus(ctx, case):
    if ALT or "msgs" not in case or sum(len(d) for _, d in case["msgs"]) > 400000:
        return
    d = os.path.join(VERIF, "corpus", "C25")
    os.makedirs(d, exist_ok=True)
    name = hashlib.sha1(json.dumps(case, sort_keys=True).encode()).hexdigest()[:12] + ".json"
    with open(os.path.join(d, name), "w") as f:
        json.dump({"msgs": case["msgs"], "rchunks": case["rchunks"]}, f)


def replay(ctx, path):
    r = json.load(open(path))
    case = r.get("case") or {}
    ctx.coq(["Framing/Props_C25.v"])
    tie = Tie(ctx)
    side = str(case.get("side", ""))
    if side == "e2e":
        srcs = case["inputs_full"]
        out = tie.h.run([[3, case.get("py_command", ""), srcs]], timeout=900)[0]
        print("impl:", Tie.brief(out, 2000))
        print("expected (prefixes):", case.get("expected"))
        exp = case.get("expected_full") or [_expected_of(s) for s in srcs]
        run_sessions(tie, [list(zip(srcs, exp))], case.get("py_command", ""))
    elif "msgs" in case:
        ms = [(i, bytes.fromhex(d)) for i, d in case["msgs"]]
        ch = case.get("rchunks", [])
        if side.startswith("python"):
            tie.py_batch(case.get("py") or "3.11", [(ms, ch)], [], [], [(ms, ch)])
        else:
            tie.rust_round([(ms, ch)], "replay")
    elif "raw_hex" in case:
        b = bytes.fromhex(case["raw_hex"])
        if side == "python":
            tie.py_batch(case.get("py") or "3.11", [], [], [(b, case["rchunks"])], [])
        else:
            tie.rust_raw([(b, case["rchunks"])])
    elif "data_hex" in case:
        c = ((case["inst"], bytes.fromhex(case["data_hex"])), case["wchunks"])
        if side == "python":
            tie.py_batch(case.get("py") or "3.11", [], [c], [], [])
        else:
            tie.rust_send([c])
    print("correspondence:", [(w, i, m) for w, c, i, m in tie.corr])
    print("judge:", [(w, j) for w, c, i, j in tie.fail] or "ok")
    for what, c, impl, judge in tie.fail[:1]:
        ctx.violation("failing-input", what, case=c, impl=impl, judge=judge)


def _expected_of(src):
    """expected REPL result of the tagged inputs this check generates (print! "tag" [+ "c" * n] | name = "...")"""
    m = re.match(r'print! "([^"]*)" \+ "([^"]*)" \* (\d+)$', src)
    if m:
        return m.group(1) + m.group(2) * int(m.group(3))
    m = re.match(r'print! "([^"]*)"$', src)
    if m:
        return m.group(1)
    return ""
