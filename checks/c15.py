"""C15 — constants and .pyc files round-trip through marshal and the reader.

proof:          coq/Marshal/Props_C15.v over coq/Marshal/Model.v (transcription of ValueObj::into_bytes, serialize.rs,
                CodeObj::{into_bytes,from_bytes,from_pyc}, Deserializer; CPython's r_object as reference reader)
translator:     checks/c15_tab.py: DataTypePrefix, From<u8>, magic-number ranges, FastKind  ->  coq/gen/MarshalTab.v
correspondence: (1) ValueObj::into_bytes (harness) vs extracted model writer, bytes equal
                (2) marshal.loads of those bytes in every installed interpreter 3.7–3.11 vs model py_loads
                    (type and value, floats by bit pattern); plus a malformed stream for py_loads alone
                (3) Deserializer / CodeObj::from_pyc (harness) vs model reader on the bytes of generated constants,
                    on .pyc files written by `erg compile`, on truncations and byte mutations of them
                (4) `erg --mode read` on the same files: exit status, no panic / abort
judge:          coq/Marshal/Spec.v (extracted): judge_writer (python's own loads result is the intended value),
                judge_read_back, judge_no_crash
"""
import sys
import tempfile
from lib.vplib import *
from checks.c15_tab import gen_tab, TabError

sys.setrecursionlimit(30000)   # canonical forms of the depth-limit cases nest 4000 lists deep
FX = int(os.environ.get("C15_FX", "1"))   # state of the model the implementation is compared with: 1 = current code (after the fix: commits)
VERS = ["3.7", "3.8", "3.9", "3.10", "3.11"]
MAGIC = {"3.7": 3394, "3.8": 3413, "3.9": 3425, "3.10": 3439, "3.11": 3495}
MAX_DEPTH = 128
PY_DEPTH = 2000

REGISTRY = dict(
    category="proof",
    text="Coq model of the marshal writer (ValueObj/CodeObj::into_bytes, serialize.rs), of CPython's unmarshaller for the "
         "emitted type codes and of erg's .pyc reader (coq/Marshal/Model.v); theorems: python reads back the intended value "
         "for every serialisable constant at every nesting depth, erg's reader reads back what the writer wrote, the reader "
         "never panics on any byte sequence. Tied to the code by a table translator and a three-way correspondence "
         "(Rust writer, marshal.loads of every interpreter 3.7–3.11, Rust reader + `erg --mode read`).",
    note="Trusted: Coq kernel, extraction + generic driver, harness/marshal, checks/c15_loads.py (canonical form of Python "
         "objects). Floats are 64-bit patterns (no float arithmetic is involved). CPython's code-object constructor "
         "validation beyond field types is outside the model (C14). The disassembler behind `erg --mode read` "
         "(CodeObj::code_info) is not modelled: see known/C15.json.",
    technique="Coq proof over hand model + generated tables + three-way correspondence (extracted model vs Rust writer/reader vs CPython marshal) + extracted judges",
    design="DESIGN.md §4 C15")

PROGRAMS = [
    "x = 1\nprint! x\n",
    "x = 2147483648\ny = 18446744073709551615\nprint! x, y, -0.0, 1.5e300, \"héllo\", \"😀\"\n",
    "f(a: Int, b: Int): Int = a + b * 2\nprint! f(3, 4)\nl = [1, 2, 3]\nprint! l\n",
    "add x: Int = (y: Int) -> x + y\ng = add 3\nprint! g(4)\n",
    "C = Class {.a = Int; .b = Str}\nC.\n    show self = self.b\nc = C.new {.a = 1; .b = \"s\"}\nprint! c.show()\n",
    "i = !0\nwhile! do! i < 3, do!:\n    i.inc!()\nprint! i, {\"a\": 1}, (1, \"t\", None)\n",
    "p! x: Int, y := 2 =\n    print! x + y\np! 1\np! 1, y := 5\nfor! 0..<3, i =>\n    print! i\n",
]

SAFE_OPS = [1, 9, 83, 100]   # POP_TOP NOP RETURN_VALUE LOAD_CONST: same numbers 3.7–3.11, no inline cache, no specialisation


# ------------------------------------------------------------------------------------------------ generators
def g_int(rng):
    return [0, rng.choice([0, 1, -1, 2**31 - 1, -2**31, 255, 256, -256, 65535, 65536, rng.randint(-2**31, 2**31 - 1),
                           rng.randint(-300, 300)])]


def g_nat(rng):
    k = rng.random()
    if k < 0.5:
        return [1, rng.choice([0, 1, 2**31 - 1, 2**31, 2**31 + 1, 2**32 - 1, 2**32, 3000000000, 2**15, 2**15 - 1, 2**30, 2**45,
                               2**45 - 1, 2**60, 2**60 - 1, 2**63 - 1, 2**63, 2**64 - 1, 2**64 - 2**15])]
    return [1, rng.getrandbits(rng.choice([8, 16, 31, 32, 33, 45, 46, 60, 61, 64]))]


def g_float(rng):
    k = rng.random()
    if k < 0.5:
        return [2, rng.choice([0, 1 << 63, 0x7FF0000000000000, 0xFFF0000000000000, 0x7FF8000000000000, 0xFFF8000000000000,
                               0x7FF0000000000001, 0x7FF8000000000001, 0x7FFFFFFFFFFFFFFF, 1, (1 << 63) | 1,
                               0x3FF0000000000000, 0x4004000000000000, 0x000FFFFFFFFFFFFF, 0x7FEFFFFFFFFFFFFF])]
    return [2, rng.getrandbits(64)]


def g_cp(rng, kind):
    if kind == 0:
        return rng.randint(32, 126)
    if kind == 1:
        return rng.choice([rng.randint(0, 127), rng.randint(128, 0x7FF), rng.randint(0x800, 0xD7FF), rng.randint(0xE000, 0xFFFF),
                           rng.randint(0x10000, 0x10FFFF)])
    return rng.choice([0, 127, 128, 0x7FF, 0x800, 0xD7FF, 0xE000, 0xFFFD, 0xFFFF, 0x10000, 0x1F600, 0x10FFFF])


def g_str_cps(rng, big=False):
    k = rng.random()
    if big:
        n = rng.choice([255, 256, 65535, 65536, 70000])
        kind = rng.choice([0, 0, 1])
        if kind == 0:
            return [rng.randint(32, 126) for _ in range(n)]
        # non-ascii content whose byte length, not char count, crosses the boundary
        return [g_cp(rng, 1) for _ in range(n // rng.choice([1, 2, 3]))]
    if k < 0.15:
        return []
    if k < 0.6:
        return [g_cp(rng, 0) for _ in range(rng.randint(1, 12))]
    if k < 0.9:
        return [g_cp(rng, rng.choice([0, 1, 2])) for _ in range(rng.randint(1, 8))]
    n = rng.choice([127, 128, 254, 255, 256, 257])
    if rng.random() < 0.5:
        return [rng.randint(32, 126) for _ in range(n)]
    return [rng.randint(32, 126) for _ in range(n - 1)] + [g_cp(rng, 2)]


def g_name(rng):
    return [rng.choice([97, 98, 99, 120, 121, 95, 0x3B1]) for _ in range(rng.randint(1, 4))] + [rng.randint(48, 57)]


def g_bytes(rng, even=False, lo=0, hi=12):
    n = rng.randint(lo, hi)
    if even:
        n -= n % 2
    return [rng.randint(0, 255) for _ in range(n)]


def g_code(rng, depth):
    nv = rng.randint(0, 4)
    varnames = []
    while len(varnames) < nv:
        n = g_name(rng)
        if n not in varnames:
            varnames.append(n)
    argc = rng.randint(0, len(varnames))
    free = [g_name(rng) for _ in range(rng.choice([0, 0, 0, 1, 2]))]
    cell = [g_name(rng) for _ in range(rng.choice([0, 0, 0, 1, 2]))]
    if varnames and rng.random() < 0.3:
        cell.append(rng.choice(varnames))       # a parameter captured by a closure: in varnames and in cellvars
    if varnames[argc:] and rng.random() < 0.05:
        # exercises the filter of dump_locals; never a parameter: CPython's constructor counts the parameters among
        # the Local kinds and rejects the code object otherwise (constructor validation is C14, outside this model)
        free.append(rng.choice(varnames[argc:]))
    # names of one code object are distinct within each table
    free = [x for i, x in enumerate(free) if x not in free[:i]]
    cell = [x for i, x in enumerate(cell) if x not in cell[:i] and x not in free]
    code = []
    for _ in range(rng.randint(1, 6)):
        code += [rng.choice(SAFE_OPS), rng.randint(0, 255)]
    flags = rng.choice([0, 0x40, 0x43, 0x13, 0x03, 0x20, 0x1000_0000])
    flags &= ~0x0C   # no *args/**kwargs: keeps the argument count arithmetic of CPython's constructor out of the way
    return [argc, 0, 0, len(varnames), rng.randint(0, 40), flags, code,
            [g_value(rng, depth - 1) for _ in range(rng.randint(0, 4))],
            [g_name(rng) for _ in range(rng.randint(0, 4))], varnames, free, cell,
            g_str_cps(rng)[:20], g_name(rng), g_name(rng), rng.randint(0, 5000), g_bytes(rng, even=True), g_bytes(rng)]


def g_value(rng, depth, allow_other=False):
    k = rng.random()
    if allow_other and k < 0.01:
        return [9]
    if k < 0.16:
        return g_int(rng)
    if k < 0.36:
        return g_nat(rng)
    if k < 0.50:
        return g_float(rng)
    if k < 0.68:
        return [3, g_str_cps(rng)]
    if k < 0.73:
        return [4, rng.randint(0, 1)]
    if k < 0.78:
        return [5]
    if depth <= 0:
        return g_int(rng)
    if k < 0.93:
        n = rng.choice([0, 1, 2, 2, 3, 5])
        return [rng.choice([6, 7]), [g_value(rng, depth - 1) for _ in range(n)]]
    return [8, g_code(rng, depth)]


def boundary_values(rng):
    out = []
    for n in [0, 1, 2**31 - 1, 2**31, 2**32 - 1, 2**32, 3000000000, 2**63, 2**64 - 1]:
        out.append([1, n])
    for i in [-2**31, -1, 0, 2**31 - 1]:
        out.append([0, i])
    for b in [0, 1 << 63, 0x7FF0000000000000, 0xFFF0000000000000, 0x7FF8000000000000, 0x7FF0000000000001]:
        out.append([2, b])
    for n in [0, 255, 256]:
        out.append([3, [97] * n])
        out.append([3, [0xE9] * (n // 2)])
        out.append([6, [[5]] * n])
    out.append([3, [0x1F600, 0x10FFFF, 0xE000, 0xD7FF, 0]])
    out.append([6, [[6, [[6, [[6, [[1, 2**40], [2, 1 << 63]]]]]]], [7, []]]])
    return out


def depth_of(v):
    if v[0] in (6, 7):
        return 1 + max([depth_of(x) for x in v[1]] + [0])
    if v[0] == 8:
        return 2 + max([depth_of(x) for x in v[1][7]] + [1])
    return 1


def has_tag(v, tag):
    if v[0] == tag:
        return True
    if v[0] in (6, 7):
        return any(has_tag(x, tag) for x in v[1])
    if v[0] == 8:
        return any(has_tag(x, tag) for x in v[1][7])
    return False


def vsize(v):
    if v[0] == 3:
        return len(v[1])
    if v[0] in (6, 7):
        return 1 + sum(vsize(x) for x in v[1])
    if v[0] == 8:
        return 30 + sum(vsize(x) for x in v[1][7])
    return 1


def storable(v):
    """the value itself when it is small enough for a replay file, its abbreviation otherwise"""
    return v if vsize(v) <= 20000 else brief(v)


def brief(v, n=60):
    """readable, bounded rendering of a value for samples / replays"""
    if v[0] == 3 and len(v[1]) > n:
        return [3, v[1][:8] + ["... %d code points" % len(v[1])]]
    if v[0] in (6, 7) and len(v[1]) > n:
        return [v[0], [brief(x) for x in v[1][:4]] + ["... %d items" % len(v[1])]]
    if v[0] in (6, 7):
        return [v[0], [brief(x) for x in v[1]]]
    return v


# ------------------------------------------------------------------------------------------------ running things
def py_loads_all(ctx, ver, blobs):
    """marshal.loads of each blob (bytes as list of ints) in the interpreter of `ver`; canonical forms"""
    if not blobs:
        return []
    exe = PY_VERSIONS[ver]
    inp = "\n".join(bytes(b).hex() for b in blobs) + "\n"
    p = sh([exe, os.path.join(VERIF, "checks", "c15_loads.py")], inp=inp, timeout=900)
    lines = p.stdout.splitlines()
    if p.returncode != 0 or len(lines) != len(blobs):
        raise FrameworkError("c15_loads.py under python %s failed (rc=%s): %s" % (ver, p.returncode, p.stderr[-1500:]))
    return [json.loads(l) for l in lines]


def canon_model_py(m):
    """model py_loads result -> same shape as c15_loads.py: the pyval, or [-1] for an exception, or None (not modelled)"""
    if m[0] == 0:
        return m[1]
    if m[0] == 1:
        return [-1]
    return None


def canon_obs_py(o):
    return [-1] if o[0] == -1 else o


def cls_of(r):
    """outcome class of a reader run (harness or model): 0 ok, 1 error, 2 crash (panic / abort / stack overflow)"""
    if r and r[0] == 0:
        return 0
    if r and r[0] == 1:
        return 1
    return 2


def canon_read(r):
    """reader result -> comparable form; a panic message is not compared, only the fact"""
    c = cls_of(r)
    if c == 2:
        return ["crash"]
    return r


def mutate(rng, data, n):
    """n variants of a byte string: truncations, single-byte changes, length-prefix bumps, insertions, deletions"""
    out = []
    L = len(data)
    for _ in range(n):
        k = rng.random()
        b = list(data)
        if k < 0.35:
            cut = rng.choice([rng.randint(0, min(24, L)), rng.randint(0, L), L - rng.randint(1, 8)])
            b = b[:max(0, cut)]
            what = "truncate@%d" % max(0, cut)
        elif k < 0.75:
            pos = rng.randint(0, L - 1)
            old = b[pos]
            b[pos] = rng.choice([0, 255, (old + 1) % 256, (old - 1) % 256, old ^ 0x80, rng.randint(0, 255), 0x28, 0x29, 0xE3, 0x73, 0x6C])
            what = "byte@%d:%d->%d" % (pos, old, b[pos])
        elif k < 0.85:
            pos = rng.randint(16, max(16, L - 1))
            del b[pos:pos + rng.randint(1, 4)]
            what = "delete@%d" % pos
        elif k < 0.95:
            pos = rng.randint(16, max(16, L - 1))
            b[pos:pos] = [rng.randint(0, 255) for _ in range(rng.randint(1, 4))]
            what = "insert@%d" % pos
        else:
            b = [rng.randint(0, 255) for _ in range(rng.randint(0, 40))]
            what = "random"
        out.append((what, b))
    return out


def nest(n, ver=11):
    """n nested one-element small tuples around None"""
    return [41, 1] * n + [78]


def malformed_py_stream(rng, n):
    """byte strings over the modelled type codes, mostly almost-valid, for py_loads vs marshal.loads"""
    out = []

    def atom(d):
        k = rng.random()
        flag = 0x80 if rng.random() < 0.2 else 0
        if k < 0.12:
            return [105 | flag] + [rng.randint(0, 255) for _ in range(4)]
        if k < 0.40:
            nd = rng.choice([0, 1, 1, 2, 2, 3, 5, 6, -1, -2, -3])
            ds = []
            for i in range(abs(nd)):
                dgt = rng.choice([rng.randint(0, 32767), rng.randint(0, 32767), 0, 32767, 32768, 65535, 1])
                ds += [dgt & 255, dgt >> 8]
            if rng.random() < 0.1 and ds:
                ds = ds[:-1]
            cnt = nd & 0xFFFFFFFF
            if rng.random() < 0.05:
                cnt = rng.choice([0x80000000, 0xFFFFFFFF, 0xFFFFFFFE])   # never a huge positive count: CPython allocates it first
            return [108 | flag] + list(cnt.to_bytes(4, "little")) + ds
        if k < 0.48:
            return [103 | flag] + [rng.randint(0, 255) for _ in range(8)]
        if k < 0.54:
            return [rng.choice([78, 84, 70]) | flag]
        if k < 0.72:
            cps = [g_cp(rng, rng.choice([0, 1, 2])) for _ in range(rng.randint(0, 5))]
            body = list("".join(chr(c) for c in cps).encode("utf-8", "surrogatepass"))
            if rng.random() < 0.3 and body:
                body[rng.randrange(len(body))] = rng.choice([0x80, 0xC0, 0xED, 0xA0, 0xF4, 0x90, 0xFF, 0xBF, 0xE0, 0xF0])
            t = rng.choice([117, 116, 122, 90, 97, 65, 115])
            ln = len(body) + rng.choice([0, 0, 0, 0, 1, -1])
            if t in (122, 90):
                return [t | flag, max(0, ln) & 255] + body
            cnt = ln & 0xFFFFFFFF
            return [t | flag] + list(cnt.to_bytes(4, "little")) + body
        if k < 0.9 and d > 0:
            m = rng.randint(0, 3)
            items = []
            for _ in range(m):
                items += atom(d - 1)
            if rng.random() < 0.7:
                return [41 | flag, max(0, m + rng.choice([0, 0, 0, 1, -1]))] + items
            cnt = (m + rng.choice([0, 0, 0, 1, -1, -5])) & 0xFFFFFFFF
            return [40 | flag] + list(cnt.to_bytes(4, "little")) + items
        # any type code, followed by a small or negative count (a huge positive one makes CPython allocate gigabytes)
        return [rng.randint(0, 255)] + rng.choice([[], [rng.randint(0, 3)], [rng.randint(0, 3), 0, 0, 0], [255, 255, 255, 255],
                                                    [rng.randint(0, 3), 0, 0, 0] + [rng.randint(0, 255) for _ in range(rng.randint(0, 6))]])

    for _ in range(n):
        b = atom(3)
        if rng.random() < 0.15 and b:
            b = b[:rng.randint(0, len(b))]
        if rng.random() < 0.1:
            b = b + [rng.randint(0, 255) for _ in range(rng.randint(1, 3))]
        out.append(b)
    return out


def compile_programs(ctx, erg, work, jobs_list, jobs=8):
    """`erg compile` of (program index, source, target version) triples; returns list of (label, ver, bytes)"""
    from concurrent.futures import ThreadPoolExecutor

    def one(job):
        i, src, ver = job
        d = os.path.join(work, "p%d_%s" % (i, ver.replace(".", "")))
        os.makedirs(d, exist_ok=True)
        f = os.path.join(d, "m.er")
        open(f, "w").write(src)
        p = sh([erg, "compile", "--py-magic-num", str(MAGIC[ver]), f], cwd=d, env=ctx.erg_env(), timeout=300)
        pyc = os.path.join(d, "m.pyc")
        if p.returncode != 0 or not os.path.exists(pyc):
            return (i, ver, None, (p.stderr or p.stdout)[-300:])
        return (i, ver, list(open(pyc, "rb").read()), "")
    with ThreadPoolExecutor(jobs) as ex:
        res = list(ex.map(one, jobs_list))
    out = []
    for i, ver, data, err in res:
        if data is None:
            ctx.count("program did not compile")
            ctx.notes.append("program %d does not compile for %s: %s" % (i, ver, err))
            continue
        out.append(("program %d for %s" % (i, ver), ver, data))
    return out


def cli_read(ctx, erg, work, blobs, jobs=12):
    """`erg --mode read` on each blob; returns list of dicts(rc, crash, err)"""
    from concurrent.futures import ThreadPoolExecutor

    def one(ib):
        i, b = ib
        f = os.path.join(work, "cli_%d.pyc" % i)
        open(f, "wb").write(bytes(b))
        try:
            p = subprocess.run([erg, "--mode", "read", f], env=dict(os.environ, **ctx.erg_env()), stdout=subprocess.PIPE,
                               stderr=subprocess.PIPE, timeout=120)
            err = p.stderr.decode("utf-8", "replace")
            rc = p.returncode
        except subprocess.TimeoutExpired:
            err, rc = "timeout", -1
        os.remove(f)
        crash = rc not in (0, 1) or "panicked" in err or "overflowed its stack" in err or "memory allocation" in err
        return {"rc": rc, "crash": crash, "stderr": err[-300:]}
    with ThreadPoolExecutor(jobs) as ex:
        return list(ex.map(one, list(enumerate(blobs))))


# ------------------------------------------------------------------------------------------------ the check
class Acc:
    def __init__(self):
        self.disagree = []      # (kind, case, impl, model)
        self.judge_fail = []    # (what, case, impl, verdict)


def writer_round(ctx, h, model, pairs, acc, label):
    """pairs: list of (ver, value). Writer correspondence, python oracle, judge, reader on the produced bytes."""
    if not pairs:
        return
    impl_w = h.run([[0, int(ver.split(".")[1]), v] for ver, v in pairs])
    mod_w = model.run([[0, FX, int(ver.split(".")[1]), v] for ver, v in pairs])
    info = model.run([[6, int(ver.split(".")[1]), v] for ver, v in pairs])
    by_ver = {}
    for idx, ((ver, v), iw, mw, inf) in enumerate(zip(pairs, impl_w, mod_w, info)):
        ser = inf[1] == 1
        cw_i = ["crash"] if iw[0] != 0 else iw
        cw_m = ["crash"] if mw[0] != 0 else mw
        ctx.count("writer:%s" % {0: "Int", 1: "Nat", 2: "Float", 3: "Str", 4: "Bool", 5: "None", 6: "Tuple", 7: "List", 8: "Code", 9: "other"}[v[0]])
        if cw_i != cw_m:
            acc.disagree.append(("writer bytes differ from the model's", {"ver": ver, "value": brief(v)}, brief([3, iw[1]])[1] if iw[0] == 0 else "panic", brief([3, mw[1]])[1] if mw[0] == 0 else "panic"))
        if not ser:
            ctx.count("not serialisable (outside the property's domain)")
            ctx.case([label, ver, v], nontrivial=False)
            continue
        if iw[0] != 0:
            acc.judge_fail.append(("into_bytes panics on a serialisable constant", {"ver": ver, "value": brief(v)}, "panic", "judge_writer: no bytes"))
            ctx.case([label, ver, v], nontrivial=False)
            continue
        by_ver.setdefault(ver, []).append((idx, v, iw[1], inf))
    for ver, items in by_ver.items():
        minor = int(ver.split(".")[1])
        blobs = [b for _, _, b, _ in items]
        obs = py_loads_all(ctx, ver, blobs)
        mpy = model.run([[1, minor, b] for b in blobs])
        jw = model.run([[7, minor, v, o if o[0] >= 0 else [-1]] for (_, v, _, _), o in zip(items, obs)])
        ir = h.run([[1, minor, b] for b in blobs])
        mr = model.run([[2, FX, minor, b] for b in blobs])
        jr_cases = []
        for (_, v, _, _), r in zip(items, ir):
            c = cls_of(r)
            jr_cases.append([9, minor, v, c, r[1] if c == 0 else [], r[2] if c == 0 else -1])
        jr = model.run(jr_cases)
        for (idx, v, b, inf), o, mp, j, ri, rm, jrb in zip(items, obs, mpy, jw, ir, mr, jr):
            case = {"ver": ver, "value": storable(v), "bytes": b if len(b) <= 200 else b[:40] + ["... %d bytes" % len(b)]}
            cm = canon_model_py(mp)
            if cm is not None and (cm != canon_obs_py(o) or (mp[0] == 0 and mp[2] != [])):
                acc.disagree.append(("marshal.loads of python %s differs from the model's py_loads" % ver, case, brief(o) if o[0] in (3, 6, 7) else o, brief(cm) if cm and cm[0] in (3, 6) else cm))
            deep_py = inf[2] > PY_DEPTH
            if j != 1 and not deep_py:
                acc.judge_fail.append(("python %s unmarshals the constant as a different value" % ver, case, brief(o) if o[0] in (3, 6) else o,
                                       "judge_writer: intended %s" % (brief(inf[0]) if inf[0][0] in (3, 6) else inf[0],)))
            if canon_read(ri) != canon_read(rm):
                acc.disagree.append(("Deserializer::deserialize_const differs from the model reader", case, canon_read(ri) if cls_of(ri) else "ok: " + str(brief(ri[1]))[:300], canon_read(rm) if cls_of(rm) else "ok: " + str(brief(rm[1]))[:300]))
            deep_erg = inf[2] > MAX_DEPTH
            if cls_of(ri) == 2:
                acc.judge_fail.append(("the reader crashes on bytes the writer produced", case, ri, "judge_no_crash"))
            elif jrb != 1 and not deep_erg:
                acc.judge_fail.append(("the reader does not read back the constant it wrote", case, brief(ri[1]) if cls_of(ri) == 0 else ri, "judge_read_back: expected %s" % (str(brief(inf[3]))[:300],)))
            ctx.count("python:%s" % ("loaded" if o[0] >= 0 else o[1]))
            ctx.count("reader:%s" % ["ok", "error", "crash"][cls_of(ri)])
            ctx.case([label, ver, v], nontrivial=(o[0] >= 0 and cls_of(ri) == 0), sample={"ver": ver, "value": brief(v, 12), "bytes": b[:48]} if len(b) < 120 else None)


def run(ctx):
    ctx.cov["rule"] = (
        "constants generated by type (Int/Nat at the i32/u32/u64 and 15-bit-digit boundaries, Float by bit pattern incl. ±0, ±inf, "
        "quiet/signalling NaN, Str of length 0/255/256/65535/65536 incl. non-BMP, Bool, None, Tuple/List nested to depth 4, code "
        "objects) × targets 3.7–3.11; .pyc files written by `erg compile` for 7 programs (quick: 2–3 targets each, thorough: all 5), with truncations, byte "
        "mutations, insertions, deletions; nests at the depth limits; a malformed stream for the reference reader. "
        "non-trivial = distinct case on which python loaded the bytes and the reader returned Ok (constants), or the reader "
        "returned Ok (files)")
    ctx.cov["trusted_base"] = ["Coq 8.16.1 kernel", "extraction (ExtrOcamlBasic only) + extract/driver.ml",
                               "harness/marshal/src/main.rs (drives ValueObj::into_bytes, Deserializer, CodeObj::{from_bytes,from_pyc,into_bytecode})",
                               "checks/c15_loads.py (canonical form of python objects), checks/c15_tab.py (table translator)",
                               "modelled, not verified: Rust str = UTF-8 of scalar values, Vec::remove/drain, f64::to_le_bytes = bit pattern"]
    ctx.assumptions = ["CPython's code-object constructor validation beyond field types, counter signs and names/kinds agreement is not modelled (C14)",
                       "FLAG_REF only records objects in a table that no stream of the writer reads back (the writer never emits TYPE_REF)",
                       "CO_NOFREE (0x40) of co_flags is recomputed by CPython < 3.11 and masked on both sides",
                       "stack use of the reader is bounded by its recursion limit (MAX_DEPTH = 128), not proved about machine frames"]
    # ---- translator
    try:
        ctx.write_gen("MarshalTab", gen_tab(REPO))
    except (TabError, OSError) as e:
        raise TieBroken("translator checks/c15_tab.py cannot read its source: %s" % e)
    proof = ctx.coq(["Marshal/Props_C15.v"])
    h = Harness(ctx, "marshal")
    model = ctx.model("Marshal")
    erg = ctx.erg_bin()
    acc = Acc()
    rng = ctx.rng
    vers = [v for v in VERS if os.path.exists(PY_VERSIONS[v])]
    work = tempfile.mkdtemp(prefix="c15-", dir=CACHE)
    try:
        _run(ctx, proof, h, model, erg, acc, rng, vers, work)
    finally:
        shutil.rmtree(work, ignore_errors=True)


def _run(ctx, proof, h, model, erg, acc, rng, vers, work):
    # ---- corpus
    pairs = []
    corpus = os.path.join(VERIF, "corpus", "C15")
    corpus_files = []
    if os.path.isdir(corpus):
        for f in sorted(os.listdir(corpus)):
            c = json.load(open(os.path.join(corpus, f)))
            if "value" in c:
                pairs.append((c.get("ver", "3.11"), c["value"]))
            if "file" in c:
                corpus_files.append(("corpus " + f, c["file"]))
    writer_round(ctx, h, model, pairs, acc, "corpus")
    # ---- (1)(2)(3a) constants
    pairs = [(ver, v) for v in boundary_values(rng) for ver in vers]
    n = ctx.scale(450, 8000)
    for _ in range(n):
        pairs.append((rng.choice(vers), g_value(rng, 4, allow_other=True)))
    for _ in range(ctx.scale(3, 24)):
        pairs.append((rng.choice(vers), [3, g_str_cps(rng, big=True)]))
    pairs.append((rng.choice(vers), [6, [[5]] * 256]))
    pairs.append((rng.choice(vers), [6, [[0, 1]] * 255]))
    for _ in range(ctx.scale(40, 600)):
        pairs.append((rng.choice(vers), [8, g_code(rng, 3)]))
    ctx.log("constants: %d cases" % len(pairs))
    writer_round(ctx, h, model, pairs, acc, "constant")
    ctx.log("constants done")

    # ---- reference reader alone: malformed stream + depth limit
    mal = malformed_py_stream(rng, ctx.scale(800, 15000))
    mal += [nest(PY_DEPTH - 1), nest(PY_DEPTH), nest(PY_DEPTH + 1)]
    for ver in vers:
        minor = int(ver.split(".")[1])
        obs = py_loads_all(ctx, ver, mal)
        mpy = model.run([[1, minor, b] for b in mal])
        for b, o, mp in zip(mal, obs, mpy):
            cm = canon_model_py(mp)
            ctx.count("py-malformed:%s" % ("not modelled" if cm is None else "loaded" if cm != [-1] else "error"))
            if cm is None:
                continue
            if cm != canon_obs_py(o):
                acc.disagree.append(("marshal.loads of python %s differs from the model's py_loads (malformed stream)" % ver,
                                     {"ver": ver, "bytes": b if len(b) < 200 else b[:20] + ["... %d bytes" % len(b)]}, o, cm))
            ctx.case(["pymal", ver, b if len(b) < 300 else len(b)], nontrivial=(cm != [-1]))

    ctx.log("reference reader stream done")
    # ---- (3b) .pyc files
    if ctx.thorough:
        jobs_list = [(i, src, ver) for i, src in enumerate(PROGRAMS) for ver in vers]
    else:
        # quick: every program for two targets (rotating, so that every target is covered), the closure program for 3.11
        jobs_list = sorted(set((i, PROGRAMS[i], ver) for i in range(len(PROGRAMS)) for ver in (vers[i % len(vers)], vers[(i + 2) % len(vers)]))
                           | {(3, PROGRAMS[3], vers[-1]), (1, PROGRAMS[1], vers[-1])})
    files = compile_programs(ctx, erg, work, jobs_list)
    ctx.log("compiled %d files" % len(files))
    if not files:
        raise FrameworkError("no program compiled: cannot produce .pyc files")
    variants = []     # (label, what, original?, bytes)
    for label, ver, data in files:
        variants.append((label, "as written", True, data))
        for what, b in mutate(rng, data, ctx.scale(20, 150)):
            variants.append((label, what, False, b))
    for label, data in corpus_files:
        variants.append((label, "corpus", False, data))
    for d in [MAX_DEPTH - 3, MAX_DEPTH - 2, MAX_DEPTH - 1, MAX_DEPTH, 1000] + ([20000] if FX else []):
        # a 3.11 file whose code object has the nest as its only constant
        body = [0xE3] + [0] * 20 + [0x73, 0, 0, 0, 0] + [41, 1] + nest(d) + [41, 0] + [41, 0] + [0x73, 0, 0, 0, 0] + \
               [0xFA, 1, 97] + [0xDA, 1, 98] + [0xDA, 1, 98] + [1, 0, 0, 0] + [0x73, 0, 0, 0, 0] + [0x73, 0, 0, 0, 0]
        variants.append(("nest %d" % d, "depth", False, [0xA7, 0x0D, 0x0D, 0x0A] + [0] * 12 + body))
    # witness of the known finding C15-disassembler: deserialises, but co_code is the single instruction (7, 0): 7 is no opcode of 3.11
    variants.append(("disassembler witness", "known", False,
                     [0xA7, 0x0D, 0x0D, 0x0A] + [0] * 12 + [0xE3] + [0] * 20 + [0x73, 2, 0, 0, 0, 7, 0] + [41, 0] * 3 +
                     [0x73, 0, 0, 0, 0, 0xFA, 1, 97, 0xDA, 1, 98, 0xDA, 1, 98, 1, 0, 0, 0, 0x73, 0, 0, 0, 0, 0x73, 0, 0, 0, 0]))
    blobs = [b for _, _, _, b in variants]
    ctx.log("files: %d variants" % len(blobs))
    ir = h.run([[2, b] for b in blobs])
    ctx.log("from_pyc done")
    mr = model.run([[3, FX, b] for b in blobs])
    ctx.log("model reader done")
    # write(read(file)) = file for files the compiler wrote
    rew_idx = [i for i, (_, _, orig, _) in enumerate(variants) if orig and cls_of(ir[i]) == 0]
    rew = h.run([[4, blobs[i][0] + 256 * blobs[i][1], ir[i][2]] for i in rew_idx]) if rew_idx else []
    rew = dict(zip(rew_idx, rew))
    first_ok = {}
    for i, ((label, what, orig, b), ri, rm) in enumerate(zip(variants, ir, mr)):
        case = {"file": label, "mutation": what, "bytes": b if len(b) <= 64 else b[:32] + ["... %d bytes" % len(b)], "full_bytes": b if len(b) < 6000 else None}
        ctx.count("file:%s" % ("as written" if orig else what.split("@")[0].split(":")[0]))
        ctx.count("from_pyc:%s" % ["ok", "error", "crash"][cls_of(ri)])
        if canon_read(ri) != canon_read(rm):
            acc.disagree.append(("CodeObj::from_pyc differs from the model reader", case, canon_read(ri) if cls_of(ri) else "ok", canon_read(rm) if cls_of(rm) else "ok (different code object)" if cls_of(ri) == 0 else "ok"))
        if cls_of(ri) == 2:
            acc.judge_fail.append(("the reader crashes instead of reporting a broken file", case, ri if ri[0] != -999 else [-999, sx_str(ri[1])[:200]], "judge_no_crash"))
        if orig:
            if cls_of(ri) != 0:
                acc.judge_fail.append(("the reader does not read back a file the compiler wrote", case, ri, "judge_read_back (file)"))
            else:
                w = rew[i]
                z = list(b)
                z[8:12] = [0, 0, 0, 0]
                if w[0] != 0 or w[1] != z:
                    acc.judge_fail.append(("a file the compiler wrote is read back as a different code object (writing it again gives other bytes)", case, "rewritten: %s" % (w[1][:64] if w[0] == 0 else w), "judge_read_back (file)"))
        ctx.case(["file", label, what, b if len(b) < 400 else hashlib.sha1(bytes(b)).hexdigest()], nontrivial=(cls_of(ri) == 0),
                 sample={"file": label, "mutation": what, "from_pyc": ["ok", "error", "crash"][cls_of(ri)]} if (not orig and len(ctx.cov["samples"]) < 6 and i % 7 == 0) else None)
    # real files in python + model py_loads (validates the code-object part of the reference reader on real files)
    obs_files = {}
    for ver in sorted(set(v for _, v, _ in files)):
        sel = [(label, data) for label, v, data in files if v == ver]
        obs = py_loads_all(ctx, ver, [data[16:] for _, data in sel])
        mps = model.run([[1, int(ver.split(".")[1]), data[16:]] for _, data in sel])
        for (label, _), o, mp in zip(sel, obs, mps):
            obs_files[label] = (o, mp)
    for label, ver, data in files:
        o, mp = obs_files[label]
        cm = canon_model_py(mp)
        if cm is not None and cm != canon_obs_py(o):
            acc.disagree.append(("marshal.loads of python %s differs from the model's py_loads on a compiled file" % ver, {"file": label}, str(o)[:400], str(cm)[:400]))
        if o[0] < 0:
            acc.judge_fail.append(("python %s cannot unmarshal a file the compiler wrote" % ver, {"file": label, "bytes": data[:64]}, o, "judge_writer (file)"))
        ctx.case(["file-in-python", label], nontrivial=o[0] >= 0)

    # ---- (4) CLI
    k = ctx.scale(70, 600)
    pick = [i for i, v in enumerate(variants) if v[2] or v[0].startswith("nest") or v[1] == "known"]
    rest = [i for i in range(len(variants)) if i not in set(pick)]
    rng.shuffle(rest)
    pick += rest[:k]
    ctx.log("cli: %d files" % len(pick))
    cli = cli_read(ctx, erg, work, [blobs[i] for i in pick])
    ctx.log("cli done")
    known = {e["id"]: e for e in ctx.known()}
    for i, c in zip(pick, cli):
        label, what, orig, b = variants[i]
        ctx.count("cli:%s" % ("crash" if c["crash"] else "rc=%d" % c["rc"]))
        ctx.cov["evaluations"] += 1
        case = {"file": label, "mutation": what, "bytes": b if len(b) <= 64 else b[:32] + ["... %d bytes" % len(b)], "full_bytes": b if len(b) < 6000 else None}
        if what == "known" and not c["crash"]:
            ctx.notes.append("NOTE stale-known-finding C15-disassembler: `erg --mode read` no longer crashes on its witness")
        if orig and (c["crash"] or c["rc"] != 0):
            acc.judge_fail.append(("`erg --mode read` fails on a file the compiler wrote", case, c, "judge_read_back (cli)"))
        elif c["crash"]:
            if cls_of(mr[i]) == 0 and cls_of(ir[i]) == 0 and "C15-disassembler" in known:
                # deserialisation succeeded; the crash is in CodeObj::code_info (printing), outside the model
                ctx.known_finding(known["C15-disassembler"])
                ctx.count("cli: crash in the disassembler after a successful read (known)")
            else:
                acc.judge_fail.append(("`erg --mode read` crashes instead of reporting a broken file", case, c, "judge_no_crash (cli)"))
        elif (c["rc"] == 0) != (cls_of(ir[i]) == 0):
            acc.disagree.append(("`erg --mode read` exit status disagrees with CodeObj::from_pyc", case, c, ir[i][:2]))

    verdict(ctx, proof, acc)


def verdict(ctx, proof, acc):
    ctx.cov["disagreements"] = len(acc.disagree)
    ctx.cov["disagreement_samples"] = [{"what": d[0], "case": d[1], "impl": d[2], "model": d[3]} for d in acc.disagree[:5]]
    if proof.ok and not acc.disagree and not acc.judge_fail:
        return
    # the judges have already been applied to every case of this run (disagreeing or not): report what they found
    seen = set()
    for what, case, impl, jv in acc.judge_fail:
        if what in seen:
            continue
        seen.add(what)
        n = sum(1 for w, _, _, _ in acc.judge_fail if w == what)
        ctx.violation("failing-input", "%s (%d cases in this run)" % (what, n), case=case, impl=impl, judge=jv)
    if not acc.judge_fail:
        what = []
        if not proof.ok:
            what.append("theorem(s) no longer check: " + proof.summary())
        if acc.disagree:
            kinds = sorted(set(d[0] for d in acc.disagree))
            what.append("%d cases on which model and implementation differ (%s)" % (len(acc.disagree), "; ".join(kinds)))
        first = acc.disagree[0] if acc.disagree else None
        ctx.violation("broken-correspondence" if acc.disagree else "broken-theorem", "; ".join(what),
                      case=first[1] if first else None, impl=first[2] if first else None, model=first[3] if first else None,
                      theorem=proof.summary() or None, no_input=True)


def replay(ctx, path):
    r = json.load(open(path))
    h = Harness(ctx, "marshal")
    model = ctx.model("Marshal")
    case = r["case"] or {}
    acc = Acc()
    if "value" in case:
        writer_round(ctx, h, model, [(case["ver"], case["value"])], acc, "replay")
    elif case.get("full_bytes") is not None or "bytes" in case:
        b = case.get("full_bytes") or case["bytes"]
        if "file" in case:
            ri = h.run([[2, b]])[0]
            rm = model.run([[3, FX, b]])[0]
            print("from_pyc:", canon_read(ri) if cls_of(ri) else "ok")
            print("model   :", canon_read(rm) if cls_of(rm) else "ok")
            if cls_of(ri) == 2:
                acc.judge_fail.append(("the reader crashes instead of reporting a broken file", case, ri, "judge_no_crash"))
            erg = ctx.erg_bin()
            work = tempfile.mkdtemp(prefix="c15-", dir=CACHE)
            c = cli_read(ctx, erg, work, [b])[0]
            shutil.rmtree(work, ignore_errors=True)
            print("cli     :", c)
            if c["crash"] and cls_of(ri) != 0:
                acc.judge_fail.append(("`erg --mode read` crashes instead of reporting a broken file", case, c, "judge_no_crash (cli)"))
        else:
            ver = case.get("ver", "3.11")
            minor = int(ver.split(".")[1])
            print("python  :", py_loads_all(ctx, ver, [b])[0])
            print("py_loads:", model.run([[1, minor, b]])[0])
    for d in acc.disagree:
        print("disagreement:", d)
    for j in acc.judge_fail:
        print("judge:", j[0], j[3])
    verdict(ctx, ProofOk(), acc)


class ProofOk:
    ok = True

    def summary(self):
        return ""
