"""translator for C15: crates/erg_common/serialize.rs (DataTypePrefix, From<u8>, get_ver_from_magic_num) and
crates/erg_compiler/ty/codeobj.rs (FastKind)  ->  coq/gen/MarshalTab.v"""
import os
import re


class TabError(Exception):
    pass


def _byte_expr(e):
    """b'i' | b'z' + 0x80 | 0 | 0x20"""
    total = 0
    for part in e.split("+"):
        part = part.strip()
        m = re.fullmatch(r"b'(\\?.)'", part)
        if m:
            c = m.group(1)
            total += ord(c[-1]) if not c.startswith("\\") else {"\\n": 10, "\\t": 9, "\\'": 39, "\\\\": 92}[c]
        elif re.fullmatch(r"0x[0-9a-fA-F_]+", part):
            total += int(part.replace("_", ""), 16)
        elif re.fullmatch(r"[0-9_]+", part):
            total += int(part.replace("_", ""))
        else:
            raise TabError("cannot read byte expression %r" % e)
    return total


def _char_pat(p):
    p = p.strip()
    m = re.fullmatch(r"'\\u\{([0-9A-Fa-f]+)\}'", p)
    if m:
        return int(m.group(1), 16)
    m = re.fullmatch(r"'(.)'", p)
    if m:
        return ord(m.group(1))
    raise TabError("cannot read char pattern %r" % p)


def gen_tab(repo):
    ser = open(os.path.join(repo, "crates/erg_common/serialize.rs"), encoding="utf-8").read()
    cod = open(os.path.join(repo, "crates/erg_compiler/ty/codeobj.rs"), encoding="utf-8").read()
    # ---- enum DataTypePrefix
    m = re.search(r"pub enum DataTypePrefix \{(.*?)\n\}", ser, re.S)
    if not m:
        raise TabError("enum DataTypePrefix not found")
    body = re.sub(r"/\*.*?\*/", "", m.group(1), flags=re.S)
    prefixes = []
    for line in body.splitlines():
        line = line.split("//")[0].strip()
        if not line:
            continue
        mm = re.fullmatch(r"(\w+)\s*=\s*(.+?),", line)
        if not mm:
            raise TabError("cannot read DataTypePrefix variant %r" % line)
        prefixes.append((mm.group(1), _byte_expr(mm.group(2))))
    names = dict(prefixes)
    if len(set(names.values())) != len(prefixes):
        raise TabError("DataTypePrefix discriminants are not distinct")
    # ---- impl From<u8> for DataTypePrefix
    m = re.search(r"impl From<u8> for DataTypePrefix \{.*?match item as char \{(.*?)\n        \}", ser, re.S)
    if not m:
        raise TabError("From<u8> for DataTypePrefix not found")
    body = re.sub(r"/\*.*?\*/", "", m.group(1), flags=re.S)
    decode = []
    default = None
    for line in body.splitlines():
        line = line.split("//")[0].strip()
        if not line:
            continue
        mm = re.fullmatch(r"(.+?)\s*=>\s*Self::(\w+),", line)
        if not mm:
            raise TabError("cannot read From<u8> arm %r" % line)
        if mm.group(1).strip() == "_":
            default = mm.group(2)
            continue
        for p in mm.group(1).split("|"):
            decode.append((_char_pat(p), mm.group(2)))
    if default != "Illegal":
        raise TabError("From<u8> default arm is not Illegal")
    if any(b > 255 for b, _ in decode):
        raise TabError("From<u8> pattern above 0xFF")
    # ---- get_ver_from_magic_num
    # the table lives in try_get_ver_from_magic_num (arms `=> Some(PythonVersion::new(..))`, `_ => None`);
    # get_ver_from_magic_num must be that function plus a panic on None (older trees: the table itself, `_ => panic!`)
    m = re.search(r"pub const fn try_get_ver_from_magic_num\(magic_num: u32\) -> Option<PythonVersion> \{\s*match magic_num \{(.*?)\n    \}", ser, re.S)
    wrapped = m is not None
    if wrapped:
        w = re.search(r"pub const fn get_ver_from_magic_num\(magic_num: u32\) -> PythonVersion \{\s*match try_get_ver_from_magic_num\(magic_num\) \{\s*"
                      r"Some\(ver\) => ver,\s*None => panic!\(", ser)
        if not w:
            raise TabError("get_ver_from_magic_num is no longer try_get_ver_from_magic_num + panic")
    else:
        m = re.search(r"pub const fn get_ver_from_magic_num\(magic_num: u32\) -> PythonVersion \{\s*match magic_num \{(.*?)\n    \}", ser, re.S)
    if not m:
        raise TabError("get_ver_from_magic_num not found")
    ranges = []
    for line in m.group(1).splitlines():
        line = line.split("//")[0].strip()
        if not line:
            continue
        mm = re.fullmatch(r"(\d+)(?:\.\.=(\d+))?\s*=>\s*(Some\()?PythonVersion::new\(3, Some\((\d+)\), Some\(0\)\)(\))?,", line)
        if mm and bool(mm.group(3)) == wrapped and bool(mm.group(5)) == wrapped:
            lo = int(mm.group(1))
            hi = int(mm.group(2)) if mm.group(2) else lo
            ranges.append((lo, hi, int(mm.group(4))))
        elif line.startswith("_ =>"):
            continue
        else:
            raise TabError("cannot read magic number arm %r" % line)
    if not ranges:
        raise TabError("no magic number ranges")
    # ---- FastKind
    m = re.search(r"pub enum FastKind \{(.*?)\n\}", cod, re.S)
    if not m:
        raise TabError("enum FastKind not found")
    kinds = []
    for line in m.group(1).splitlines():
        line = line.split("//")[0].strip()
        if not line:
            continue
        mm = re.fullmatch(r"(\w+)\s*=\s*(.+?),", line)
        if not mm:
            raise TabError("cannot read FastKind variant %r" % line)
        kinds.append((mm.group(1), _byte_expr(mm.group(2))))
    m = re.search(r"impl TryFrom<u8> for FastKind \{.*?match kind \{(.*?)\n        \}", cod, re.S)
    if not m:
        raise TabError("TryFrom<u8> for FastKind not found")
    kdec = []
    for line in m.group(1).splitlines():
        line = line.split("//")[0].strip()
        if not line:
            continue
        mm = re.fullmatch(r"(.+?)\s*=>\s*Ok\(Self::(\w+)\),", line)
        if mm:
            kdec.append((_byte_expr(mm.group(1)), mm.group(2)))
        elif line.startswith("_ =>"):
            continue
        else:
            raise TabError("cannot read FastKind::try_from arm %r" % line)
    kn = dict(kinds)
    out = ["(* GENERATED by checks/c15_tab.py from crates/erg_common/serialize.rs and crates/erg_compiler/ty/codeobj.rs — do not edit *)",
           "From Coq Require Import ZArith List.", "Import ListNotations.", "Open Scope Z_scope.", ""]
    out.append("(* enum DataTypePrefix: discriminants *)")
    for n, v in prefixes:
        out.append("Definition pfx_%s : Z := %d." % (n, v))
    out.append("")
    out.append("(* impl From<u8> for DataTypePrefix: byte -> discriminant; any other byte is Illegal *)")
    out.append("Definition prefix_decode : list (Z * Z) :=\n  [%s]." % "; ".join("(%d, %d)" % (b, names[n]) for b, n in decode))
    out.append("")
    out.append("(* get_ver_from_magic_num: (lo, hi, minor); any other magic number panics *)")
    out.append("Definition magic_ranges : list (Z * Z * Z) :=\n  [%s]." % "; ".join("(%d, %d, %d)" % r for r in ranges))
    out.append("")
    out.append("(* enum FastKind and TryFrom<u8> *)")
    for n, v in kinds:
        out.append("Definition fk_%s : Z := %d." % (n, v))
    out.append("Definition fastkind_decode : list (Z * Z) :=\n  [%s]." % "; ".join("(%d, %d)" % (b, kn[n]) for b, n in kdec))
    return "\n".join(out) + "\n"
