"""C24 — Diagnostics point inside the source at the offending construct.

proof:          coq/Diag/Props_C24.v over coq/Diag/Model.v (crates/erg_common/error.rs: Location calculus,
                format_context / SubMessage::format_code_and_pointer arithmetic; io.rs: Input::reread_lines;
                token.rs: Token::loc) on top of the lexer model of C08 (coq/Lexer/Model.v)
correspondence: (a) programs with ONE undefined name or ONE ill-typed `+` after arbitrary same-line text are compiled
                in-process (erg_compiler::HIRBuilder); the location of the error is compared with the location the
                model predicts (Token::loc of the lexer model's token for the name / the right operand), its
                rendering (ErrorDisplay::show, fmt::Display under catch_unwind) with the rows predicted by the renderer
                model; (b) the real renderer on arbitrary (also ill-formed) locations and both input kinds vs the
                model, including the panics; (c) Location::concat / left_main_concat / stream / slow_stream on random
                locations vs the model
judge:          coq/Diag/Spec.v `judge` (extracted) on EVERY diagnostic of every program: rendering did not crash;
                the location is a range whose lines exist and whose columns lie within them; for the undefined
                name the text sliced at the range is the name, for the type error the range lies within the
                offending expression; the marker row sits under the range (counted in characters)
"""
from lib.vplib import *

REGISTRY = dict(
    category="proof (partial)",
    text="Coq model of the Location calculus (concat, left_main_concat, stream) and of the arithmetic of the "
         "diagnostic renderer (format_context / format_code_and_pointer / Input::reread_lines with every usize "
         "subtraction and assertion as an explicit panic) on top of the C08 lexer model; theorems for all source "
         "texts: concat of ordered in-range parts is in range, rendering never panics on a location inside the text "
         "(with the exact set of locations on which it does panic), an identifier token's range is exactly its text "
         "(content verbatim, no line break, col_end = col_begin + characters).  Tied to the real compiler in-process: "
         "locations and renderings of generated programs with one undefined name / one type error after same-line "
         "strings with escapes, wide and combining characters, tabs, comments, multi-line strings, interpolations; "
         "an extracted judge decides the property on every diagnostic reported.",
    note="Partial: that the lowering pass attaches the location of the RIGHT syntax node to each error is sampled by "
         "the generated programs, not proved (erg_compiler/lower.rs is not modelled).  Trusted: Coq kernel, extraction "
         "+ generic OCaml driver, harness/diag, the python parser of the rendered text.  Known finding: the end column "
         "of string tokens is computed from the cooked content (known/C24.json).",
    technique="Coq proof over hand model + in-process correspondence (HIRBuilder errors, real renderer, Location calculus) + extracted judge",
    design="DESIGN.md §4 C24")

ANSI = re.compile(r"\x1b\[[0-9;]*m")
K_SYMBOL = 0
VERDICT = {1: "rendering the diagnostic crashed", 2: "the diagnostic carries no line/column range",
           3: "the location names a line that does not exist (or its lines are out of order)",
           4: "a column of the location lies outside its line", 5: "the location does not cover the offending construct",
           6: "the marker row of the rendering is not under the reported range"}

# ---------------------------------------------------------------- generator
PLAIN = ["a", "hello", "x y", "é", "naïve", "日本語", "漢字かな", "👍", "é", "à́b", "Ω≈ç", "\t", "a\tb", "#", "#[", "]#",
         "{", "}", "1 + 2", "zzz", " ", "", "🇯🇵", "ｆｕｌｌ", "한글"]
ESCAPES = ["\\n", "\\t", "\\\"", "\\\\", "\\'", "\\0", "\\r", "\\x41"]   # \\xHH only in plain single-line literals (last entry)
NAMES = ["zzz", "zzz", "zzz", "undefined_name", "qq1", "未定義", "zé", "zzz!"]
COMMENTS = ["#[ c ]#", "#[]#", "#[ 日本語 \"q\" ]#", "#[ a #[ nested ]# b ]#", "#[ two\n   lines ]#"]


def gen_body(rng, multi=False):
    parts = []
    interp = False
    for _ in range(rng.randint(0, 3)):
        k = rng.random()
        if k < 0.5:
            parts.append(rng.choice(PLAIN))
        elif k < 0.9:
            # the lexer knows \\xHH only in single-line literals before the first interpolation
            parts.append(rng.choice(ESCAPES[:-1] if multi or interp else ESCAPES))
        else:
            interp = True
            parts.append("\\{" + rng.choice(["1", "1 + 1", "n0"]) + "}")
    return "".join(parts)


def gen_string(rng, multi=False):
    if multi:      # the two lines are generated apart: no escape or interpolation is cut by the line break
        return '"""' + gen_body(rng, True) + "\n" + rng.choice(["", "  ", "x"]) + gen_body(rng, True) + '"""'
    return '"' + gen_body(rng) + '"'


def gen_piece(rng):
    """one argument of the print! call that precedes the error, as (text, kind)"""
    k = rng.random()
    if k < 0.55:
        return gen_string(rng), "string"
    if k < 0.7:
        return gen_string(rng, multi=True), "multi-line string"
    if k < 0.8:
        return str(rng.choice([0, 1, 42, 1000])), "number"
    if k < 0.9:
        return rng.choice(COMMENTS) + gen_string(rng), "comment+string"
    return "n0", "name"


def gen_case(rng):
    """-> dict(pieces, kind, name/expr, head, tail, nl): the program is built by build()"""
    pieces = [gen_piece(rng) for _ in range(rng.randint(0, 4))]
    kind = "name" if rng.random() < 0.6 else "type"
    c = {"pieces": pieces, "kind": kind}
    if kind == "name":
        c["name"] = rng.choice(NAMES)
        c["ctx"] = rng.choice(["arg", "arg", "interp", "method", "call", "binop"])
    else:
        c["lhs"], c["rhs"] = rng.choice([("1", None), ("2", None), ('"s"', "1"), ('"s"', "2")])
        if c["rhs"] is None:
            c["rhs"] = gen_string(rng)
            if "\\{" in c["rhs"]:
                c["rhs"] = '"a"'
    c["head"] = rng.choice([[], [], [""], ["", ""], ["n1 = 1"], ["# comment", ""], ['s0 = "a\\nb"', ""]])
    c["tail"] = rng.choice([[], [], [""], ["n2 = 2"], ["", "n2 = 2", ""]])
    c["nl"] = rng.random() < 0.7       # trailing newline after the last line
    c["stmt"] = rng.choice(["print", "print", "assign", "semi"])
    return c


def build(c):
    """-> (program text, expectation for the judge, (line, col) of the token whose Token::loc the model predicts)"""
    head = ["n0 = 0"] + list(c["head"])
    args = [p for p, _ in c["pieces"]]
    if c["kind"] == "name":
        n = c["name"]
        err = {"arg": n, "interp": '"v\\{' + n + '}w"', "method": n + ".foo", "call": n + " 1", "binop": "1 + " + n}[c["ctx"]]
        off = {"arg": 0, "interp": 4, "method": 0, "call": 0, "binop": 4}[c["ctx"]]
    else:
        err = c["lhs"] + " + " + c["rhs"]
        off = len(c["lhs"]) + 3
    if c["stmt"] == "print" or not args:
        line = "print! " + ", ".join(args + [err])
    elif c["stmt"] == "assign":
        line = "v = [" + ", ".join(args[:1]) + "]; print! " + ", ".join(args[1:] + [err])
    else:
        line = "print! " + ", ".join(args) + "; w = " + err
    # position of the error expression: last line of `line` (multi-line strings / comments may precede)
    pre_lines = line.split("\n")
    err_col = len(pre_lines[-1]) - len(err.split("\n")[-1]) if "\n" not in err else None
    err_ln = len(head) + len(pre_lines)
    if "\n" in err:                     # the right operand is a multi-line string: the expression starts on an earlier line
        first = err.split("\n")
        err_ln = len(head) + len(pre_lines) - (len(first) - 1)
        err_col = len(line.split("\n")[len(pre_lines) - len(first)]) - len(first[0])
    text = "\n".join(head + [line] + list(c["tail"]))
    if c["nl"]:
        text += "\n"
    if c["kind"] == "name":
        exp = [0, c["name"]]
    else:
        end = err_col + len(err) if "\n" not in err else 10 ** 6
        exp = [1, err_ln, err_col, end]
    return text, exp, (err_ln, err_col + off)


def show_case(c):
    t, exp, tokpos = build(c)
    return {"program": t, "error": c["kind"], "construct": c.get("name") or (c["lhs"] + " + " + c["rhs"]), "at": list(tokpos)}


# ---------------------------------------------------------------- observation
def parse_rendering(text):
    """rendered diagnostic -> list of (lineno, code, blanks, marks): every "<n> | code" row with the marker row below it"""
    lines = ANSI.sub("", text).split("\n")
    rows = []
    i = 0
    while i < len(lines):
        m = re.match(r"^ *(\d+) +[|│] (.*)$", lines[i])
        if m and i + 1 < len(lines):
            g = re.match(r"^ *[:·]( *)(\S*) *$", lines[i + 1])
            # a multi-line string piece can look like a code row: require the gutter below
            if g is not None:
                rows.append([int(m.group(1)), m.group(2), len(g.group(1)), len(g.group(2))])
                i += 2
                continue
            m2 = re.match(r"^ (\d+) [|│] (.*)$", lines[i])     # Location::Line: no marker row
            if m2:
                rows.append([int(m2.group(1)), m2.group(2), 0, -1])
        i += 1
    return rows


def loc_str(l):
    return {0: "%d:%d-%d:%d" % tuple(l[1:5]) if l[0] == 0 else "", 1: "lines %s" % l[1:], 2: "line %s" % l[1:], 3: "unknown"}[l[0]]


class Machinery:
    def __init__(self, ctx):
        self.ctx = ctx
        self.h = Harness(ctx, "diag")
        self.hl = Harness(ctx, "lexer")        # answers is_valid_*_symbol_ch (unicode_xid) for the lexer model
        self.model = ctx.model("Diag")
        self.cls = {}

    def classify(self, texts):
        need = sorted({ord(ch) for t in texts for ch in t} - set(self.cls))
        if need:
            for cp, s, c, b in self.hl.run([[2, need]])[0]:
                self.cls[cp] = (s, c)

    def tables(self, text):
        cps = sorted(set(ord(ch) for ch in text))
        return [c for c in cps if self.cls[c][0]], [c for c in cps if self.cls[c][1]]

    def compile(self, texts):
        out = []
        for r in self.h.run([[0, t] for t in texts]):
            if not isinstance(r, list) or not r or r[0] in (-999, -997):
                out.append("CRASH: " + (sx_str(r[1]) if isinstance(r, list) and len(r) > 1 and isinstance(r[1], list) else str(r)))
                continue
            ds = []
            for d in r[1]:
                rend = d[6]
                ds.append({"warn": bool(d[0]), "kind": d[1], "errno": d[2], "msg": ANSI.sub("", sx_str(d[3])), "loc": d[4],
                           "subs": d[5], "crashed": rend[0] != 0 or (len(rend) > 2 and rend[2] != 1),
                           "text": ANSI.sub("", sx_str(rend[1])), "rows": parse_rendering(sx_str(rend[1])) if rend[0] == 0 else []})
            out.append(ds)
        return out

    def model_tokens(self, texts):
        self.classify(texts)
        cases = []
        for t in texts:
            st, co = self.tables(t)
            cases.append([0, st, co, t])
        return self.model.run(cases)

    def judge(self, items):
        """items: (text, crashed, loc, exp, first_row) -> verdict codes"""
        return self.model.run([[6, t, 1 if cr else 0, l, e, fr or []] for t, cr, l, e, fr in items])

    def known(self, text, loc):
        self.classify([text])
        st, co = self.tables(text)
        return self.model.run([[7, st, co, text, loc]])[0] == 1


def is_target(d, c):
    if d["warn"]:
        return False
    if c["kind"] == "name":
        return d["msg"].startswith(c["name"] + " is not defined") or (c["name"] + " is not defined") in d["msg"]
    return "mismatched" in d["msg"] and "`+`" in d["msg"]


def evaluate(m, cases):
    """compile, predict, judge.  -> list of per-case dicts {diags, verdicts, corr (list of strings), pred}"""
    built = [build(c) for c in cases]
    texts = [b[0] for b in built]
    impl = m.compile(texts)
    toks = m.model_tokens(texts)
    jitems, jidx = [], []
    res = []
    for ci, (c, (text, exp, tokpos), ds, mt) in enumerate(zip(cases, built, impl, toks)):
        r = {"text": text, "diags": ds, "corr": [], "verdicts": [], "pred": None, "target": None}
        res.append(r)
        if isinstance(ds, str):
            r["verdicts"].append((1, None, "compiler"))
            continue
        if mt[0] == 0:
            for t in mt[1:]:
                if t[2] == tokpos[0] and t[3] == tokpos[1]:
                    r["pred"] = t[6]
        tg = [d for d in ds if is_target(d, c)]
        if len(tg) != 1:
            r["corr"].append("expected exactly one %s diagnostic, got %d: %s" % (c["kind"], len(tg), [d["msg"] for d in ds if not d["warn"]][:3]))
        for d in ds:
            e = exp if (tg and d is tg[0]) else [2]
            jitems.append((text, d["crashed"], d["loc"], e, d["rows"][0][2:4] if d["rows"] else None))
            jidx.append((ci, d))
        if len(tg) == 1:
            d = tg[0]
            r["target"] = d
            if r["pred"] is None:
                r["corr"].append("the lexer model has no token at %s" % (tokpos,))
            else:
                if d["loc"] != r["pred"]:
                    r["corr"].append("location %s, model predicts %s" % (loc_str(d["loc"]), loc_str(r["pred"])))
                for s in d["subs"]:
                    if s != r["pred"] and s != [3]:
                        r["corr"].append("sub-message location %s, model predicts %s" % (loc_str(s), loc_str(r["pred"])))
    verdicts = m.judge(jitems) if jitems else []
    for (ci, d), v in zip(jidx, verdicts):
        res[ci]["verdicts"].append((v, d, "diag"))
    # rendering correspondence of the target diagnostics (input kind Str)
    rc, ridx = [], []
    for ci, r in enumerate(res):
        d = r["target"]
        if d is not None and not d["crashed"] and "<file not found>" not in d["text"]:
            for s in (d["subs"] or [d["loc"]]):
                rc.append([1, 0, r["text"], s, d["loc"]])
            ridx.append((ci, len(d["subs"]) or 1))
    rows = m.model.run(rc) if rc else []
    k = 0
    for ci, n in ridx:
        want = []
        bad = False
        for j in range(n):
            x = rows[k + j]
            if x[0] != 0:
                bad = True
            else:
                want += [[w[0], sx_str(w[1]), w[2], w[3]] for w in x[1:]]
        k += n
        got = res[ci]["target"]["rows"]
        if bad:
            res[ci]["corr"].append("renderer model panics, implementation rendered")
        elif got != want:
            res[ci]["corr"].append("rendered rows %s, model %s" % (got[:3], want[:3]))
    return res


# ---------------------------------------------------------------- renderer / calculus correspondence
TEXTS = ["a\nbb\nccc\n", "x = 1", "", "\n", "日本語\n👍é\n", "a\tb\n\nz", "one\r\ntwo\r\nthree", "l1\nl2\nl3\nl4\nl5\nl6\nl7\nl8\nl9\nl10\nl11\n"]


def rand_loc(rng, nl, wide=False):
    k = rng.random()
    ln = lambda: rng.choice([0, 1, 1, 2, 2, 3, nl, nl + 1, nl + 3, 10, 12])
    cl = lambda: rng.choice([0, 0, 1, 2, 3, 5, 9, 40])
    if k < 0.6:
        a, b = ln(), ln()
        if rng.random() < 0.7 and a > b:
            a, b = b, a
        return [0, a, cl(), b, cl()]
    if k < 0.75:
        a, b = ln(), ln()
        if rng.random() < 0.7 and a > b:
            a, b = b, a
        return [1, a, b]
    if k < 0.9:
        return [2, ln()]
    return [3]


def check_renderer(ctx, m, n):
    cases = []
    for _ in range(n):
        t = ctx.rng.choice(TEXTS)
        nl = t.count("\n") + 1
        sub = rand_loc(ctx.rng, nl)
        core = rand_loc(ctx.rng, nl) if sub == [3] else sub
        cases.append([ctx.rng.choice([0, 1]), t, sub, core])
    # the witnesses of render_total_refuted / render_line0_refuted
    for k in (0, 1):
        cases.append([k, "a\nb\n", [0, 2, 0, 1, 0], [3]])
        cases.append([k, "a\n", [2, 0], [3]])
    impl = m.h.run([[1, k, t, core if sub == [3] else sub, 0, 0] for k, t, sub, core in cases])
    mod = m.model.run([[1, k, t, sub, core] for k, t, sub, core in cases])
    bad = []
    npanic = 0
    for c, i, o in zip(cases, impl, mod):
        ip = not isinstance(i, list) or i[0] != 0
        op = o[0] != 0
        npanic += ip
        ctx.count("renderer: panic" if ip else "renderer: rendered")
        if ip != op:
            bad.append((c, "implementation %s, model %s" % ("panics: " + (sx_str(i[1])[:80] if isinstance(i, list) and len(i) > 1 else "?") if ip else "renders", "panics" if op else "renders")))
            continue
        if not ip and (c[3] if c[2] == [3] else c[2])[0] != 3:
            got = parse_rendering(sx_str(i[1]))
            want = [[w[0], sx_str(w[1]), w[2], w[3]] for w in o[1:]]
            if c[0] == 1 and "\r" in c[1]:
                got = [[g[0], g[1].rstrip("\r"), g[2], g[3]] for g in got]
            if got != want:
                bad.append((c, "rows %s, model %s" % (got[:3], want[:3])))
    ctx.cov["renderer_cases"] = len(cases)
    ctx.cov["renderer_panics_agreed"] = npanic
    return bad


def check_calculus(ctx, m, n):
    cases = []
    for _ in range(n):
        k = ctx.rng.choice([2, 3, 4, 5])
        if k in (2, 5):
            cases.append([k, rand_loc(ctx.rng, 5), rand_loc(ctx.rng, 5)])
        else:
            cases.append([k, [rand_loc(ctx.rng, 5) for _ in range(ctx.rng.randint(0, 4))]])
    impl = m.h.run(cases)
    mod = m.model.run(cases)
    ctx.cov["calculus_cases"] = len(cases)
    return [(c, "implementation %s, model %s" % (i, o)) for c, i, o in zip(cases, impl, mod) if i != o]


# ---------------------------------------------------------------- run
def load_known():
    p = os.path.join(VERIF, "known", "C24.json")
    return json.load(open(p)) if os.path.exists(p) else []


def run(ctx):
    ctx.cov["rule"] = ("programs: `n0 = 0`, optional lines, then one line `print! <piece>, ..., <error>` (also after `v = [..];` / "
                       "before `; w = <error>`), optional lines, with or without final newline; pieces = string literals with "
                       "escapes (\\n \\t \\\" \\\\ \\' \\0 \\r \\x41), wide CJK / emoji / combining / full-width characters, raw tabs, "
                       "interpolations, multi-line strings ending on the error line, #[ ]# comments (also spanning lines), numbers; "
                       "error = an undefined name (ASCII / non-ASCII / with !) as argument, inside an interpolation, as receiver, "
                       "callee or operand, or an ill-typed `lit + lit`; non-trivial = distinct program with exactly one target "
                       "diagnostic and >= 1 piece before it")
    ctx.cov["trusted_base"] = ["Coq 8.16.1 kernel", "extraction (ExtrOcamlBasic only) + extract/driver.ml",
                               "harness/diag/src/main.rs (HIRBuilder::build on ErgConfig::string, ErrorDisplay::show / Display under catch_unwind, Location calculus)",
                               "harness/lexer mode 2 (unicode_xid classification for the lexer model)",
                               "python: parser of the rendered text (rows `<n> | code` + marker row), ANSI stripping"]
    ctx.assumptions = ["line / column numbers below 2^30 (u32 / usize additions cannot overflow)",
                       "`\" \".repeat(n)` is modelled by its count (no allocation failure)",
                       "source lines are separated by \\n (the lexer normalises \\r\\n; Input::reread_lines splits on \\n only)",
                       "which syntax node's location the lowering pass attaches to an error is sampled, not proved"]
    proof = ctx.coq(["Diag/Props_C24.v"])
    m = Machinery(ctx)
    cases = []
    corpus = os.path.join(VERIF, "corpus", "C24")
    if os.path.isdir(corpus):
        for f in sorted(os.listdir(corpus)):
            if f.endswith(".json"):
                cases.append(json.load(open(os.path.join(corpus, f)))["case"])
    for c in cases:
        c["pieces"] = [tuple(p) for p in c["pieces"]]
    ncorpus = len(cases)
    for _ in range(ctx.scale(350, 3000)):
        cases.append(gen_case(ctx.rng))
    ctx.log("%d programs" % len(cases))
    res = evaluate(m, cases)
    ctx.log("programs evaluated")
    bad_r = check_renderer(ctx, m, ctx.scale(400, 8000))
    bad_c = check_calculus(ctx, m, ctx.scale(400, 8000))
    ctx.log("renderer and calculus compared")
    failing, corr, known_hits = [], [], []
    for i, (c, r) in enumerate(zip(cases, res)):
        ctx.count("corpus" if i < ncorpus else "error:" + c["kind"] + (":" + c.get("ctx", "") if c["kind"] == "name" else ""))
        for _, k in c["pieces"]:
            ctx.count("piece:" + k)
        nontrivial = r["target"] is not None and len(c["pieces"]) >= 1
        ctx.case(r["text"], nontrivial=nontrivial, sample=show_case(c) if i % 50 == 0 and len(r["text"]) < 300 else None)
        for v, d, what in r["verdicts"]:
            if v != 0:
                if v == 4 and d is not None and m.known(r["text"], d["loc"]):
                    known_hits.append((c, r, d))
                    ctx.count("known:string col_end")
                else:
                    failing.append((c, r, v, d))
        if r["corr"]:
            corr.append((c, r))
    ctx.cov["programs"] = len(cases)
    ctx.cov["diagnostics_judged"] = sum(len(r["verdicts"]) for r in res)
    if failing:
        report_failing(ctx, m, failing)
        return
    # known findings: the listed witnesses must still reproduce
    for e in load_known():
        if e.get("status") != "finding":
            continue
        t = e["witness"]["program"]
        ds = m.compile([t])[0]
        hit = False
        if not isinstance(ds, str):
            vs = m.judge([(t, d["crashed"], d["loc"], [2], d["rows"][0][2:4] if d["rows"] else None) for d in ds])
            hit = any(v == 4 and m.known(t, d["loc"]) for v, d in zip(vs, ds))
        if hit:
            ctx.known_finding(e)
        else:
            ctx.notes.append("stale-known-finding %s: the witness no longer reproduces" % e["id"])
            print("NOTE stale-known-finding property=C24 id=%s" % e["id"])
    # the classes the model itself predicts are not correspondence failures: a known hit has loc == model prediction
    if corr or bad_r or bad_c or not proof.ok:
        what = []
        if not proof.ok:
            what.append("theorem(s) no longer check: " + proof.summary())
        if corr:
            what.append("%d programs whose diagnostic differs from the model's prediction (first: %s)" % (len(corr), corr[0][1]["corr"][0]))
        if bad_r:
            what.append("%d renderer cases differ from the model (first: %s on %s)" % (len(bad_r), bad_r[0][1], bad_r[0][0]))
        if bad_c:
            what.append("%d Location calculus cases differ (first: %s on %s)" % (len(bad_c), bad_c[0][1], bad_c[0][0]))
        # search harder for a program that fails the property itself: the disagreeing programs shrunk, then a fresh batch
        cand = []
        for c, r in corr[:8]:
            def differs(sub, c=c):
                c2 = dict(c, pieces=sub)
                return bool(evaluate(m, [c2])[0]["corr"])
            cand.append(dict(c, pieces=shrink_list(c["pieces"], differs, budget=40) if len(c["pieces"]) > 1 else c["pieces"]))
        extra = cand + [gen_case(ctx.rng) for _ in range(ctx.scale(1500, 10000))]
        res2 = evaluate(m, extra)
        failing = [(c, r, v, d) for c, r in zip(extra, res2) for v, d, _ in r["verdicts"]
                   if v != 0 and not (v == 4 and d is not None and m.known(r["text"], d["loc"]))]
        ctx.cov["search_batch"] = len(extra)
        if failing:
            report_failing(ctx, m, failing)
            return
        case = show_case(cand[0]) if cand else ({"renderer_case": bad_r[0][0]} if bad_r else ({"calculus_case": bad_c[0][0]} if bad_c else None))
        impl = None
        if cand:
            r0 = evaluate(m, [cand[0]])[0]
            impl = {"diagnostics": [(d["msg"][:80], loc_str(d["loc"])) for d in r0["diags"]] if not isinstance(r0["diags"], str) else r0["diags"], "differences": r0["corr"]}
        ctx.violation("broken-correspondence" if (corr or bad_r or bad_c) else "broken-theorem", "; ".join(what),
                      case=case, impl=impl, theorem=proof.summary() or None, no_input=True)


def report_failing(ctx, m, failing):
    per = {}
    for c, r, v, d in sorted(failing, key=lambda f: len(f[1]["text"])):
        if per.get(v, 0) >= 2:
            continue
        per[v] = per.get(v, 0) + 1

        def fails(sub, c=c, v=v):
            r2 = evaluate(m, [dict(c, pieces=sub)])[0]
            return any(x[0] == v for x in r2["verdicts"])
        small = dict(c, pieces=shrink_list(c["pieces"], fails, budget=40) if len(c["pieces"]) > 1 else c["pieces"])
        for key in ("head", "tail"):
            if small[key] and any(x[0] == v for x in evaluate(m, [dict(small, **{key: []})])[0]["verdicts"]):
                small[key] = []
        r2 = evaluate(m, [small])[0]
        hit = [x for x in r2["verdicts"] if x[0] == v]
        if not hit:
            small, r2, hit = c, r, [(v, d, "")]
        d2 = hit[0][1]
        ctx.violation("failing-input", "diagnostic violating C24: %s" % VERDICT.get(v, v),
                      case=dict(show_case(small), case=small),
                      impl={"message": d2["msg"] if d2 else r2["diags"], "location": loc_str(d2["loc"]) if d2 else None,
                            "rendering": d2["text"][:600] if d2 else None},
                      model={"predicted_location": loc_str(r2["pred"]) if r2["pred"] else None},
                      judge={"code": v, "meaning": VERDICT.get(v)})


def replay(ctx, path):
    r = json.load(open(path))
    m = Machinery(ctx)
    case = r.get("case") or {}
    if "case" in case:
        c = case["case"]
        c["pieces"] = [tuple(p) for p in c["pieces"]]
        res = evaluate(m, [c])[0]
        print("program:", repr(res["text"]))
        bad = []
        for v, d, _ in res["verdicts"]:
            print("diagnostic:", d["msg"][:100] if d else d, "| location", loc_str(d["loc"]) if d else None, "| judge", v, VERDICT.get(v, "ok"))
            if d:
                print(d["text"])
            if v != 0 and not (v == 4 and d is not None and m.known(res["text"], d["loc"])):
                bad.append((v, d))
        print("model predicts:", loc_str(res["pred"]) if res["pred"] else None, "| differences:", res["corr"])
        if bad:
            v, d = bad[0]
            ctx.violation("failing-input", VERDICT.get(v, str(v)), case=case, impl={"location": loc_str(d["loc"]) if d else None},
                          judge={"code": v})
        elif res["corr"]:
            ctx.violation("broken-correspondence", res["corr"][0], case=case, no_input=True)
    elif "program" in case:
        t = case["program"]
        ds = m.compile([t])[0]
        print("program:", repr(t))
        for d in ds if not isinstance(ds, str) else []:
            v = m.judge([(t, d["crashed"], d["loc"], [2], d["rows"][0][2:4] if d["rows"] else None)])[0]
            print("diagnostic:", d["msg"][:100], "| location", loc_str(d["loc"]), "| judge", v, VERDICT.get(v, "ok"),
                  "| known class" if v == 4 and m.known(t, d["loc"]) else "")
            print(d["text"])
    elif "renderer_case" in case:
        k, t, sub, core = case["renderer_case"]
        print("implementation:", m.h.run([[1, k, t, core if sub == [3] else sub, 0, 0]])[0][:1])
        print("model:", m.model.run([[1, k, t, sub, core]])[0][:1])
    else:
        print("no concrete input in this replay file:", r.get("what"))
