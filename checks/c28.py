"""C28 — the language server's document copy matches the client's.

proof:          coq/TextSync/Props_C28.v over coq/TextSync/Model.v (pos_to_byte_index, String::replace_range,
                FileCache::update / incremental_update, VFS) against coq/TextSync/Spec.v (the client per LSP 3.17:
                UTF-16 documents, positions, didOpen/didChange)
correspondence: generated notification histories are sent to the real server (els::Server behind molc's FakeClient,
                harness `ergv-textsync`, one server per batch); after every notification the file-cache text, its
                version and the VFS text of every document are read back and compared with the extracted model;
                pos_to_byte_index is additionally compared directly on (text, position) grids
judge:          the extracted Spec: client documents computed from the history; verdict per notification
                (conforming history: server copy == client copy in UTF-16, same version, VFS the same; any history:
                no panic); for positions: the returned byte index is a char boundary at the position's UTF-16 offset
"""
import re
from lib.vplib import *

REGISTRY = dict(
    category="proof",
    text="Coq model of the language server's incremental text synchronisation (coq/TextSync/Model.v) proved to refine the "
         "LSP 3.17 client document (UTF-16 positions, end-of-line clamping, \\n / \\r\\n / \\r) for every conforming "
         "history and never to panic on any history; tied to els by replaying generated didOpen/didChange histories on "
         "the real server and comparing file cache, version and VFS after every notification; extracted Spec judges.",
    note="Trusted: Coq kernel, extraction (ExtrOcamlBasic) + generic OCaml driver, harness/textsync, serde/lsp-types JSON "
         "decoding, String::replace_range semantics as modelled. Not modelled: the lexer and the checks run on each new "
         "text, non-file URIs, didClose/re-open.",
    technique="Coq proof over hand model (refinement + no-panic, all histories) + step-wise correspondence through the real "
              "server (extracted model vs els::Server) + extracted LSP client as judge",
    design="DESIGN.md §4 C28")

ASCII = list("abx1 =.#")
BMP = ["é", "あ", "ß", "￮"]
ASTRAL = ["\U0001F600", "\U0001D4B3"]
NL = ["\n", "\r\n", "\n", "\r\n", "\r"]
EOLS = re.compile(r"\r\n|\n|\r")


# ------------------------------------------------------------------ generation (python client, only to pick inputs)
def gen_text(rng, maxlen, w):
    out = []
    for _ in range(rng.randint(0, maxlen)):
        k = rng.choices([0, 1, 2, 3], weights=w)[0]
        out.append(rng.choice([ASCII, BMP, ASTRAL, NL][k]))
    return "".join(out)


def line_spans(doc):
    """[(index of first char, line text)] — lines end with \\r\\n, \\n or \\r"""
    spans, pos = [], 0
    for m in EOLS.finditer(doc):
        spans.append((pos, doc[pos:m.start()]))
        pos = m.end()
    spans.append((pos, doc[pos:]))
    return spans


def u16(s):
    return len(s.encode("utf-16-le")) // 2


def gen_pos(rng, doc):
    """a position LSP allows (possibly past the end of the line) and the char index it denotes"""
    spans = line_spans(doc)
    li = rng.choice([0, len(spans) - 1, rng.randrange(len(spans)), rng.randrange(len(spans))])
    start, t = spans[li]
    r = rng.random()
    if r < 0.2:
        return (li, u16(t) + rng.randint(1, 4)), start + len(t)
    k = rng.choice([0, len(t), rng.randint(0, len(t)), rng.randint(0, len(t))])
    return (li, u16(t[:k])), start + k


def gen_change(rng, doc, w):
    """one LSP-conforming content change for `doc`; returns (wire change, new doc)"""
    r = rng.random()
    if r < 0.06:
        t = gen_text(rng, 12, w)
        return [0, t], t
    (p1, i1), (p2, i2) = gen_pos(rng, doc), gen_pos(rng, doc)
    if i1 > i2 or (i1 == i2 and p1 > p2):
        p1, i1, p2, i2 = p2, i2, p1, i1
    kind = rng.choice(["ins", "ins", "del", "rep", "rep"])
    if kind == "ins":
        p2, i2 = p1, i1
    t = "" if kind == "del" else gen_text(rng, 6, w)
    return [1, p1[0], p1[1], p2[0], p2[1], t], doc[:i1] + t + doc[i2:]


def gen_malformed_change(rng, doc, w):
    spans = line_spans(doc)
    kind = rng.choice(["line_beyond", "inverted", "split", "both_beyond"])
    (p1, i1), (p2, i2) = gen_pos(rng, doc), gen_pos(rng, doc)
    t = gen_text(rng, 4, w)
    if kind == "line_beyond":
        p2 = (len(spans) + rng.randint(0, 3), rng.randint(0, 5))
    elif kind == "both_beyond":
        p1 = (len(spans) + rng.randint(0, 3), rng.randint(0, 5))
        p2 = (p1[0] + rng.randint(0, 2), rng.randint(0, 5))
    elif kind == "inverted":
        if i1 < i2:
            p1, p2 = p2, p1
        elif i1 == i2:
            p1 = (p1[0] + 1 + rng.randint(0, 2), rng.randint(0, 3))
    else:
        # a position inside a surrogate pair, when the document has an astral char
        kind = "line_beyond"
        for li, (st, tx) in enumerate(spans):
            ks = [k for k, ch in enumerate(tx) if ord(ch) > 0xFFFF]
            if ks:
                k = rng.choice(ks)
                p1 = (li, u16(tx[:k]) + 1)
                p2 = (li, u16(tx) + 1) if rng.random() < 0.5 else p1
                kind = "split"
                break
        if kind == "line_beyond":
            p2 = (len(spans) + rng.randint(0, 3), rng.randint(0, 5))
    return kind, [1, p1[0], p1[1], p2[0], p2[1], t]


def gen_history(rng, malformed=False):
    """notifications for 1-2 documents, <= 12 edits in total; with `malformed` exactly one edit (or its notification)
    breaks the LSP rules; returns (notifications, kinds of malformation used)"""
    w = [rng.choice([1, 3, 6]), rng.choice([0, 1, 3]), rng.choice([0, 1, 3]), rng.choice([0, 1, 2])]
    two = rng.random() < 0.25
    docs, vers, kinds = {0: gen_text(rng, 24, w)}, {0: rng.randint(0, 3)}, []
    notifs = [[0, 0, vers[0], docs[0]]]
    nedits = rng.randint(1, 12)
    bad_at = rng.randrange(nedits) if malformed else -1
    done = 0
    while done < nedits:
        if two and 1 not in docs and rng.random() < 0.4:
            docs[1], vers[1] = gen_text(rng, 16, w), rng.randint(0, 3)
            notifs.append([0, 1, vers[1], docs[1]])
            continue
        d = rng.choice(sorted(docs))
        nch = min(rng.choices([0, 1, 2, 3], weights=[1, 12, 4, 2])[0], nedits - done)
        cur, chs, notif_level = docs[d], [], None
        for _ in range(nch):
            if done == bad_at and rng.random() < 0.75:
                kind, c = gen_malformed_change(rng, cur, w)
                kinds.append(kind)
            else:
                if done == bad_at:
                    notif_level = rng.choice(["stale_version", "unknown_doc", "reopen"])
                c, cur = gen_change(rng, cur, w)
            chs.append(c)
            done += 1
        if nch == 0:
            if done == bad_at:
                notif_level = rng.choice(["stale_version", "unknown_doc", "reopen"])
            kinds.append("empty-change-list")
            done += 1
        vers[d] += rng.randint(1, 3)
        if notif_level:
            kinds.append(notif_level)
        if notif_level == "stale_version":
            notifs.append([1, d, vers[d] - rng.randint(4, 6), chs])
        elif notif_level == "unknown_doc":
            notifs.append([1, 2, vers[d], chs])
        elif notif_level == "reopen":
            notifs.append([0, d, vers[d], gen_text(rng, 8, w)])
        else:
            docs[d] = cur
            notifs.append([1, d, vers[d], chs])
    return notifs, kinds


def ndocs_of(notifs):
    return max(n[1] for n in notifs) + 1


# ------------------------------------------------------------------ running and judging
def canon_steps(steps):
    """panic payload (message text) is not compared"""
    if not isinstance(steps, list) or (steps and not isinstance(steps[0], list)):
        return []
    return [[-999] if (s and s[0] == -999) else s for s in steps]


def panic_msg(step):
    return sx_str(step[1]) if len(step) > 1 and isinstance(step[1], list) else ""


class Runner:
    def __init__(self, ctx):
        self.ctx = ctx
        self.h = Harness(ctx, "textsync")
        self.model = ctx.model("TextSync")
        self.hid = 0

    def impl(self, hists):
        cases = []
        for ns in hists:
            self.hid += 1
            cases.append([1, self.hid, ns])
        return self.h.run(cases)

    def evaluate(self, hists):
        """-> list of dict(impl, model, judge) per history"""
        impl = self.impl(hists)
        mod = self.model.run([[1, ndocs_of(ns), ns] for ns in hists])
        jud = self.model.run([[2, ndocs_of(ns), ns, canon_steps(st)]
                              for ns, st in zip(hists, impl)])
        return [dict(impl=i, model=m, judge=j) for i, m, j in zip(impl, mod, jud)]


def verdict(ns, r):
    """(corr_mismatch or None, judge_failure or None)"""
    impl, mod, jud = r["impl"], r["model"], r["judge"]
    jf = corr = None
    if not isinstance(impl, list) or (impl and impl[0] == -997):
        return {"step": 0, "why": "harness process died", "impl": impl}, {"step": 0, "why": "server process died: %s" % impl}
    for i, j in enumerate(jud):
        if j[1] != 1:
            st = impl[i]
            if st and st[0] == -999:
                why = "server panicked: %s" % panic_msg(st)
            else:
                why = "server copy differs from the client's document"
            jf = {"step": i, "notification": ns[i], "conforming": j[0], "why": why, "client": j[2],
                  "server": st if not (st and st[0] == -999) else "panic"}
            break
    ci, cm = canon_steps(impl), canon_steps(mod)
    if ci != cm:
        k = next((k for k in range(min(len(ci), len(cm))) if ci[k] != cm[k]), min(len(ci), len(cm)))
        corr = {"step": k, "notification": ns[k] if k < len(ns) else None,
                "impl": ci[k] if k < len(ci) else None, "model": cm[k] if k < len(cm) else None}
    return corr, jf


def readable(ns):
    out = []
    for n in ns:
        if n[0] == 0:
            out.append({"didOpen": n[1], "version": n[2], "text": n[3]})
        else:
            out.append({"didChange": n[1], "version": n[2],
                        "changes": [({"text": c[1]} if c[0] == 0 else
                                     {"range": [[c[1], c[2]], [c[3], c[4]]], "text": c[5]}) for c in n[3]]})
    return out


def shrink_history(runner, ns):
    def fails(sub):
        if not sub or sub[0][0] != 0:
            return False
        r = runner.evaluate([sub])[0]
        return verdict(sub, r)[1] is not None
    small = shrink_list(ns, fails, budget=60)
    # then the change lists of each didChange
    for i, n in enumerate(small):
        if n[0] == 1 and len(n[3]) > 1:
            def fails2(chs, i=i, n=n):
                cand = small[:i] + [[1, n[1], n[2], chs]] + small[i + 1:]
                return fails(cand)
            small[i] = [1, n[1], n[2], shrink_list(n[3], fails2, budget=20)]
    return small


# ------------------------------------------------------------------ pos_to_byte_index directly
def pos_cases(rng, n):
    cases = []
    for _ in range(n):
        w = [rng.choice([1, 3]), rng.choice([0, 1, 3]), rng.choice([0, 1, 3]), rng.choice([1, 2])]
        d = gen_text(rng, 16, w)
        spans = line_spans(d)
        width = max(u16(t) for _, t in spans) + 3
        cases.append((d, [[l, c] for l in range(len(spans) + 2) for c in range(width)]))
    return cases


def check_positions(ctx, runner, cases):
    """-> (n_corr_mismatch, first_mismatch, judge_failures)"""
    impl = runner.h.run([[0, d, ps] for d, ps in cases])
    mod = runner.model.run([[0, d, ps] for d, ps in cases])
    jud = runner.model.run([[3, d, [[p[0], p[1], (i if i >= 0 else 0)] for p, i in zip(ps, im)]] for (d, ps), im in zip(cases, impl)])
    ncorr, first, jfs = 0, None, []
    for (d, ps), im, mo, ju in zip(cases, impl, mod, jud):
        astral = any(ord(ch) > 0xFFFF for ch in d)
        ctx.case(["pos", d], nontrivial=len(d) > 0, sample={"text": d, "positions": len(ps)} if astral else None)
        ctx.count("position grids")
        ctx.count("positions", len(ps))
        for p, i, m, j in zip(ps, im, mo, ju):
            if j[0] == 1:
                ctx.count("positions valid per LSP")
            if i != m:
                ncorr += 1
                first = first or {"text": d, "position": p, "impl": i, "model": m}
            if i == -999 or (j[0] == 1 and j[1] != 1):
                jfs.append({"text": d, "position": p, "impl_byte_index": i, "valid_per_lsp": j[0],
                            "why": "pos_to_byte_index panicked" if i == -999 else
                                   "byte index is not the char boundary at the position's UTF-16 offset"})
    return ncorr, first, jfs


# ------------------------------------------------------------------ the check
def load_corpus():
    out = []
    corpus = os.path.join(VERIF, "corpus", "C28")
    if os.path.isdir(corpus):
        for f in sorted(os.listdir(corpus)):
            if f.endswith(".json"):
                out.append((f, json.load(open(os.path.join(corpus, f)))["notifications"]))
    return out


def run(ctx):
    ctx.cov["rule"] = ("notification histories (didOpen, didChange with 0-3 content changes: insertions, deletions, replacements, "
                       "full-text) over 1-2 documents, <= 12 edits, texts over ASCII / BMP (2- and 3-byte) / astral chars and "
                       "\\n, \\r\\n, \\r; positions valid per LSP incl. offsets past the end of a line and the end of the document; "
                       "a malformed stream (line past the end, inverted range, position inside a surrogate pair, stale version, "
                       "unknown document, re-open) judged on 'no panic' only; plus pos_to_byte_index on full position grids. "
                       "non-trivial = distinct conforming history with at least one ranged change on a document containing a "
                       "non-ASCII char, or a distinct non-empty text of a position grid")
    ctx.cov["trusted_base"] = ["Coq 8.16.1 kernel", "extraction (ExtrOcamlBasic only) + extract/driver.ml",
                               "harness/textsync (sends JSON notifications to els::Server::dispatch, reads the file cache through "
                               "the cfg(erg_verif) hook and VFS.read)",
                               "serde_json / lsp-types decoding of the notifications",
                               "modelled, not verified: String::replace_range / is_char_boundary / char_indices, Dict insert/get"]
    ctx.assumptions = ["documents are identified by file: URIs (to_file_path().unwrap())",
                       "Lexer::lex, check_file and quick_check_file, which the handlers run on the text, return (they are not "
                       "modelled; a panic there shows up as a failing input of this check)",
                       "one didOpen per document: didClose / re-open is outside the property (FileCache::update ignores a "
                       "re-open whose version is not greater than the cached one)",
                       "version numbers fit i32, line/character fit u32 (lsp-types rejects others before the handlers run)"]
    proof = ctx.coq(["TextSync/Props_C28.v"])
    runner = Runner(ctx)
    n = ctx.scale(1000, 20000)
    todo = [(ns, "corpus:" + f) for f, ns in load_corpus()]
    n_corr = n_judge = gen_invalid = evaluated = generated = 0
    first_corr = None
    t0 = time.time()
    # batches: corpus + the first generated histories first; once a batch contains failing inputs the rest is not needed
    while (todo or generated < n) and n_judge == 0:
        batch = todo
        todo = []
        while len(batch) < ctx.scale(1100, 4000) and generated < n:
            mal = generated % 6 == 5
            ns, kinds = gen_history(ctx.rng, malformed=mal)
            batch.append((ns, "malformed" if mal else "conforming"))
            generated += 1
            for k in kinds:
                ctx.count("malformed: " + k if k != "empty-change-list" else k)
        # several harness processes in parallel (one server each); results keep their order
        results = parallel_evaluate(ctx, runner, [ns for ns, _ in batch])
        evaluated += len(batch)
        for (ns, origin), r in zip(batch, results):
            corr, jf = verdict(ns, r)
            conforming = bool(r["judge"]) and all(j[0] == 1 for j in r["judge"]) and len(r["judge"]) == len(ns)
            ctx.count("history " + origin.split(":")[0])
            ctx.count("conforming per Spec" if conforming else "not conforming per Spec")
            if origin == "conforming" and not conforming and not jf:
                gen_invalid += 1
            for nt in ns:
                ctx.count("didOpen" if nt[0] == 0 else "didChange")
                if nt[0] == 1:
                    ctx.count("multi-change notification" if len(nt[3]) > 1 else "single/empty-change notification")
                    for c in nt[3]:
                        if c[0] == 0:
                            ctx.count("change: full text")
                        elif (c[1], c[2]) == (c[3], c[4]):
                            ctx.count("change: insertion")
                        elif c[5] == "":
                            ctx.count("change: deletion")
                        else:
                            ctx.count("change: replacement")
            texts = "".join(nt[3] if nt[0] == 0 else "".join(c[-1] for c in nt[3]) for nt in ns)
            if any(ord(ch) > 0xFFFF for ch in texts):
                ctx.count("history with astral chars")
            nontriv = conforming and any(ord(ch) > 127 for ch in texts) and any(nt[0] == 1 and any(c[0] == 1 for c in nt[3]) for nt in ns)
            ctx.case(ns, nontrivial=nontriv, sample=readable(ns) if nontriv and len(ns) <= 4 else None)
            if jf:
                n_judge += 1
                if n_judge <= 3:
                    small = shrink_history(runner, ns[:jf["step"] + 1])
                    r2 = runner.evaluate([small])[0]
                    _, jf2 = verdict(small, r2)
                    jf2 = jf2 or jf
                    ctx.violation("failing-input", "history after which the language server's state violates the property: %s (step %d, %s)"
                                  % (jf2["why"], jf2["step"], "LSP-conforming history" if jf2.get("conforming") else "malformed history"),
                                  case={"notifications": small, "readable": readable(small),
                                        "encoding": "(0 doc ver text) didOpen | (1 doc ver changes) didChange; change (0 text) | (1 sl sc el ec text), UTF-16 positions"},
                                  impl=r2["impl"], model=r2["model"], judge=jf2)
            elif corr:
                n_corr += 1
                first_corr = first_corr or {"notifications": ns[:corr["step"] + 1], "readable": readable(ns[:corr["step"] + 1]), "detail": corr}
    if ctx.thorough and n_judge == 0:
        # small scope, exhaustively: every range of a position grid (incl. one line / 2 units beyond) on short documents
        ex = []
        for _ in range(30):
            w = [2, 1, 2, 2]
            d = gen_text(ctx.rng, 6, w)
            spans = line_spans(d)
            grid = [(l, c) for l in range(len(spans) + 1) for c in range(max(u16(t) for _, t in spans) + 2)]
            for a in grid:
                for b in grid:
                    ex.append([[0, 0, 1, d], [1, 0, 2, [[1, a[0], a[1], b[0], b[1], "x\U0001F600"]]]])
        ctx.cov["exhaustive_small_scope"] = "every range over the position grid of 30 documents of <= 6 chars: %d histories" % len(ex)
        for k in range(0, len(ex), 4000):
            part = ex[k:k + 4000]
            for ns, r in zip(part, parallel_evaluate(ctx, runner, part)):
                corr, jf = verdict(ns, r)
                evaluated += 1
                ctx.count("history small-scope")
                ctx.case(ns, nontrivial=False)
                if jf:
                    n_judge += 1
                    if n_judge <= 3:
                        ctx.violation("failing-input", "history after which the language server's state violates the property: %s" % jf["why"],
                                      case={"notifications": ns, "readable": readable(ns)}, impl=r["impl"], model=r["model"], judge=jf)
                elif corr:
                    n_corr += 1
                    first_corr = first_corr or {"notifications": ns, "readable": readable(ns), "detail": corr}
    ctx.log("%d histories evaluated in %.1fs" % (evaluated, time.time() - t0))
    if n_judge:
        ctx.notes.append("stopped after %d of %d histories: %d failing inputs found" % (evaluated, n + evaluated - generated, n_judge))
    ctx.cov["traces_validated_against_impl"] = evaluated
    if gen_invalid:
        ctx.notes.append("%d histories generated as conforming are not conforming per Spec (generator/Spec disagreement)" % gen_invalid)
        ctx.count("generated-as-conforming but rejected by Spec", gen_invalid)
    # pos_to_byte_index directly
    pc = pos_cases(ctx.rng, ctx.scale(300, 6000))
    pcorr, pfirst, pjf = check_positions(ctx, runner, pc)
    for f in pjf[:2]:
        n_judge += 1
        ctx.violation("failing-input", "pos_to_byte_index: %s" % f["why"], case={"text": f["text"], "position": f["position"]},
                      impl=f["impl_byte_index"], judge=f)
    if n_judge == 0 and (n_corr or pcorr or not proof.ok or gen_invalid):
        what = []
        if not proof.ok:
            what.append("theorem(s) no longer check: " + proof.summary())
        if n_corr:
            what.append("%d histories on which model and language server differ" % n_corr)
        if pcorr:
            what.append("%d positions on which model and pos_to_byte_index differ" % pcorr)
        if gen_invalid:
            what.append("%d generated histories rejected by Spec.follows_lsp" % gen_invalid)
        ctx.violation("broken-correspondence" if (n_corr or pcorr or gen_invalid) else "broken-theorem", "; ".join(what),
                      case=first_corr or pfirst, theorem=proof.summary() or None, no_input=True)


def parallel_evaluate(ctx, runner, hists, workers=8):
    import threading
    chunks = [hists[i::workers] for i in range(workers)]
    impl_chunks = [None] * workers
    base = runner.hid
    runner.hid += len(hists)
    errs = []

    def work(k):
        try:
            cases = [[1, base + 1 + k + workers * j, ns] for j, ns in enumerate(chunks[k])]
            impl_chunks[k] = runner.h.run(cases) if cases else []
        except Exception as e:  # noqa
            errs.append(e)
    ts = [threading.Thread(target=work, args=(k,)) for k in range(workers)]
    for t in ts:
        t.start()
    mod = runner.model.run([[1, ndocs_of(ns), ns] for ns in hists])
    for t in ts:
        t.join()
    if errs:
        raise FrameworkError("harness run failed: %s" % errs[0])
    impl = [None] * len(hists)
    for k in range(workers):
        for j, r in enumerate(impl_chunks[k]):
            impl[k + workers * j] = r
    jud = runner.model.run([[2, ndocs_of(ns), ns, canon_steps(st)] for ns, st in zip(hists, impl)])
    return [dict(impl=i, model=m, judge=j) for i, m, j in zip(impl, mod, jud)]


def replay(ctx, path):
    r = json.load(open(path))
    runner = Runner(ctx)
    case = r["case"]
    if "notifications" in case:
        ns = case["notifications"]
        res = runner.evaluate([ns])[0]
        corr, jf = verdict(ns, res)
        print("history:", json.dumps(readable(ns), ensure_ascii=False))
        print("impl:", res["impl"])
        print("model:", res["model"])
        print("judge:", res["judge"])
        print("correspondence:", corr)
        print("verdict:", jf)
        if jf:
            ctx.violation("failing-input", jf["why"], case=case, impl=res["impl"], model=res["model"], judge=jf)
    else:
        d, p = case["text"], case["position"]
        pcorr, pfirst, pjf = check_positions(ctx, runner, [(d, [p])])
        print("position:", d, p, "mismatch:", pfirst, "judge:", pjf)
        for f in pjf:
            ctx.violation("failing-input", f["why"], case=case, impl=f["impl_byte_index"], judge=f)
