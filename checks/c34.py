"""C34 — inferred types describe the values bindings hold at run time.

proof:   coq/Typing/Props_C34.v — typing_value_sound / bindings_sound: in the reference inference of the fragment every
         binding's run-time value is a member ([has_ty]) of the type inferred for it: singleton types of literals, enum
         types (if-expressions, list elements), class-level operator types from the declared table, List(T, N) with
         push : N + 1 and + : N + M; accepted_index_in_range: an index accepted for a list of known length cannot raise
         IndexError.  PARTIAL: reference inference, not erg's; erg is tied binding by binding.
tie:     for every top-level binding of generated programs the type printed by `erg --mode typecheck` is parsed into the
         model's types (pylib/typing_gen.parse_erg_type; unknown forms are counted as unparsed and not judged) and the
         *verified, extracted* membership test has_ty is applied to the value the same program prints at run time.
         The agreement of erg's type with the reference inference (extracted sub, both directions) is reported; a more or
         less precise sound type is not an alarm.  A literal index erg accepts that raises IndexError at run time is a
         violation as well.
judge:   Spec.judge_c34 = has_ty (extracted).  Known classes: Spec.known_c34 (extracted), known/C34.json.
"""
import shutil

from lib.vplib import *
from checks import c26
from pylib import typing_gen as T
from pylib import typing_run as R

REGISTRY = dict(
    category="proof",
    text="PARTIAL proof (level: proof (partial), fragment: bindings built from literals, arithmetic, comparisons, "
         "if-expressions, list construction, push / + / sum / len / index, user functions). Coq: a denotation has_ty of "
         "the types erg reports for the fragment (classes with the numeric tower, singleton and enum types incl. list "
         "constants, intervals, List(T) and List(T, N)) and the theorems typing_value_sound / bindings_sound (every "
         "binding's value is a member of its inferred type, reference inference), push_length, concat_length, "
         "list_length_sound, accepted_index_in_range. erg is tied by applying the extracted has_ty to (type printed by "
         "`erg --mode typecheck`, value printed at run time) for every top-level binding of generated programs.",
    note="Trusted: Coq kernel, extraction + OCaml driver, the parser of erg's type syntax and of printed Python values "
         "(pylib/typing_gen.py), CoreErg/Sem.v values. Forms of types outside the parser (refinement predicates, unions, "
         "Map, ...) are counted as unparsed and not judged; language-server hover is not observed (the same type "
         "printer feeds both). Known findings: known/C34.json (not / sum / push-then-concat).",
    technique="Coq soundness proof of a reference inference w.r.t. an executable denotation + per-binding differential "
              "check of erg's reported types against run-time values with the extracted membership test",
    design="DESIGN.md §4 C34, CoreErg")

KNOWN_IDS = {1: "K_not", 2: "K_sum", 3: "K_push_concat"}


def witness_trees():
    lst = lambda xs: [T.E_LIST, [T.lit(0, x) for x in xs]]
    return {
        "K_not": [[T.S_DEF, 1, 0, T.lit(4, 1)], [T.S_DEF, 2, 0, [T.E_UN, 2, [T.E_VAR, 1]]], [T.S_PRINT, [[T.E_VAR, 2]]]],
        "K_sum": [[T.S_DEF, 1, 0, lst([1, 2, 3])], [T.S_DEF, 2, 0, [T.E_METH, T.M_SUM, [T.E_VAR, 1], []]], [T.S_PRINT, [[T.E_VAR, 2]]]],
        "K_push_concat": [[T.S_DEF, 1, 0, lst([1, 2, 3])], [T.S_DEF, 2, 0, [T.E_METH, T.M_PUSH, [T.E_VAR, 1], [T.lit(0, 4)]]],
                          [T.S_DEF, 3, 0, [T.E_BIN, 0, [T.E_VAR, 2], lst([5])]],
                          [T.S_DEF, 4, 0, [T.E_INDEX, [T.E_VAR, 3], T.lit(0, 6)]], [T.S_PRINT, [[T.E_VAR, 4]]]],
    }


class Runner:
    def __init__(self, ctx):
        self.ctx = ctx
        self.erg = ctx.erg_bin()
        self.env = ctx.erg_env()
        self.model = ctx.model("Typing")
        self.work = os.path.join(CACHE, "tmp", "c34-%d" % os.getpid())
        shutil.rmtree(self.work, ignore_errors=True)
        os.makedirs(self.work, exist_ok=True)
        self.n = 0

    def close(self):
        shutil.rmtree(self.work, ignore_errors=True)

    def erg_obs(self, sources, mode):
        items = []
        for s in sources:
            self.n += 1
            items.append(("p%d" % self.n, s))
        return R.observe(self.erg, self.env, self.work, items, mode)

    def observe(self, progs):
        """[(typecheck Obs, run Obs or None)]"""
        tc = self.erg_obs([T.to_erg(p) for p in progs], "typecheck")
        acc = [i for i, o in enumerate(tc) if o.rc == 0]
        runs = self.erg_obs([T.to_erg(progs[i], show_bindings=True) for i in acc], "run")
        ro = dict(zip(acc, runs))
        return [(tc[i], ro.get(i)) for i in range(len(progs))]


def analyse(rn, prog, tco, ro):
    """per-binding verdicts of one accepted program: list of dicts"""
    types = T.reported_types(tco.out)
    vals = T.printed_values(ro.out)
    defs = [(s[1], s[3]) for s in prog if s[0] == T.S_DEF]
    out = []
    for x, e in defs:
        ttxt = types.get(x)
        b = {"id": x, "def": T.erg_expr(e), "type_text": ttxt, "type": None, "value": vals.get(x), "printed": x in vals}
        if ttxt is not None:
            b["type"] = T.parse_erg_type(ttxt)
        out.append(b)
    cases = [b for b in out if b["type"] is not None and b["value"] is not None]
    res = rn.model.run([[3, b["value"], b["type"]] for b in cases]) if cases else []
    for b, r in zip(cases, res):
        b["member"] = (r == [1]) if r in ([0], [1]) else None
    return out


def index_culprit(prog, bindings):
    """the first top-level definition whose value was not printed (the run stopped there)"""
    for b in bindings:
        if not b["printed"]:
            for s in prog:
                if s[0] == T.S_DEF and s[1] == b["id"]:
                    return s
    return None


def add_index_statements(rng, g, prog):
    """append definitions `v = l[i]` with i around the expected length (erg decides whether it is in range)"""
    lists = [(s[1], g.var_ty(s[1])) for s in prog if s[0] == T.S_DEF and T.is_list(g.var_ty(s[1]) or "")]
    for _ in range(rng.choice([0, 0, 1, 1, 2])):
        if not lists:
            break
        i, t = rng.choice(lists)
        n = t[2] or 3
        k = rng.choice([rng.randint(0, max(n - 1, 0)), rng.randint(0, max(n - 1, 0)), n - 1, n, rng.randint(0, 2 * n + 2)])
        prog.append([T.S_DEF, g.fresh(), 0, [T.E_INDEX, [T.E_VAR, i], T.lit(0, max(k, 0))]])
    return prog


def run(ctx):
    c26.gen_sigs(ctx)
    proof = ctx.coq(["Typing/Props_C34.v"])
    ctx.log(proof.summary())
    rn = Runner(ctx)
    try:
        _run(ctx, rn, proof)
    finally:
        rn.close()


def _run(ctx, rn, proof):
    cov = ctx.cov
    cov["rule"] = ("a case = one top-level binding of an accepted generated program; non-trivial = its reported type was "
                   "parsed, its run-time value was read back and the extracted has_ty was applied")
    cov["trusted_base"] = ["Coq kernel", "extraction + extract/driver.ml", "pylib/typing_gen.py (printer, type parser, value parser)",
                           "harness/sigs (declared operator classes)"]
    ctx.assumptions = ["the theorems are about the reference inference; erg's inference is sampled binding by binding",
                       "types erg prints in a form the parser does not know are not judged (counted as unparsed)"]
    known = {k["id"]: k for k in ctx.known()}
    failing = []

    progs, kinds = [], []
    for kid, tree in witness_trees().items():
        progs.append(tree)
        kinds.append("witness:" + kid)
    cdir = os.path.join(VERIF, "corpus", "C34")
    if os.path.isdir(cdir):
        for f in sorted(os.listdir(cdir)):
            if f.endswith(".json"):
                progs.append(json.load(open(os.path.join(cdir, f)))["tree"])
                kinds.append("corpus")
    n = ctx.scale(110, 2500)
    for _ in range(n):
        g = T.Gen(ctx.rng, "c34", max_stmts=ctx.rng.choice([5, 8, 11]))
        p = g.program()
        progs.append(add_index_statements(ctx.rng, g, p))
        kinds.append("generated")

    witness_seen = set()
    for off in range(0, len(progs), 400):
        chunk, ck = progs[off:off + 400], kinds[off:off + 400]
        obs = rn.observe(chunk)
        ref = rn.model.run([[0, 1, p] for p in chunk])
        for p, kd, (tco, ro), rf in zip(chunk, ck, obs, ref):
            ctx.count("program:" + ("accepted" if ro is not None else "rejected"))
            if ro is None:
                continue
            bs = analyse(rn, p, tco, ro)
            ref_ty = {b[0]: b[1] for b in rf[1]} if rf and rf[0] == 1 else {}
            cmp_cases = [(b, ref_ty[b["id"]]) for b in bs if b["type"] is not None and b["id"] in ref_ty]
            cmp_res = rn.model.run([[4, b["type"], t] for b, t in cmp_cases]) if cmp_cases else []
            for (b, t), r in zip(cmp_cases, cmp_res):
                ctx.count("vs-reference:" + {(1, 1): "same", (1, 0): "erg-more-precise", (0, 1): "erg-less-precise",
                                              (0, 0): "incomparable"}.get(tuple(r), "?"))
            for b in bs:
                if b["type_text"] is None:
                    ctx.count("binding:type-not-reported")
                    continue
                form = re.sub(r"[-\d.]+|\"[^\"]*\"", "#", b["type_text"])[:24]
                if b["type"] is None:
                    ctx.count("binding:unparsed")
                    ctx.count("unparsed-form:" + form)
                    ctx.case(["unparsed", b["type_text"], b["def"]], nontrivial=False)
                    continue
                ctx.count("type-form:" + ["NoneType", "Bool", "Nat", "Int", "Float", "Str", "enum/singleton", "interval", "List(T)", "List(T, N)"][b["type"][0]])
                if b["value"] is None:
                    ctx.count("binding:value-not-read")
                    continue
                ctx.count("binding:judged")
                ctx.case(["binding", b["type_text"], T.show_value(b["value"]), b["def"]], nontrivial=True,
                         sample={"def": b["def"], "erg_type": b["type_text"], "value": T.show_value(b["value"]), "member": b.get("member")})
                if b.get("member") is False:
                    failing.append((p, b, kd, None))
            if ro.exc == "IndexError":
                s = index_culprit(p, bs)
                ctx.count("run:IndexError")
                if s is not None and s[3][0] == T.E_INDEX:
                    failing.append((p, {"id": s[1], "def": T.erg_expr(s[3]), "type_text": "(index accepted by the checker)",
                                        "value": None, "index_of": s[3][1][1] if s[3][1][0] == T.E_VAR else None}, kd, "IndexError"))
            elif ro.exc:
                ctx.count("run:" + ro.exc)

    # ---- classify
    reported = 0
    for p, b, kd, what in failing:
        target = b["index_of"] if what == "IndexError" and b.get("index_of") is not None else b["id"]
        cls = rn.model.run([[6, p, target]])[0][0]
        kid = KNOWN_IDS.get(cls)
        if kid is not None:
            ctx.count("known:" + kid)
            if kid in known:
                ctx.known_finding(known[kid])
                continue
        if reported < 3:
            reported += 1
            keep = needed_ids(p, b["id"])
            small = [s for s in p if not (s[0] == T.S_DEF and s[1] not in keep) and s[0] in (T.S_DEF, T.S_FUN)]
            ctx.violation("failing-input",
                          ("index %s accepted by the checker raises IndexError at run time" % b["def"]) if what == "IndexError" else
                          "binding v%d = %s: erg reports the type %s but the value at run time is %s" % (
                              b["id"], b["def"], b["type_text"], T.show_value(b["value"])),
                          case={"erg": T.to_erg(small, show_bindings=True), "tree": small, "binding": b["id"], "generator": kd},
                          impl={"reported_type": b["type_text"], "value": T.show_value(b["value"]) if b["value"] else None,
                                "exception": what},
                          model={"known_c34_class": cls}, judge={"has_ty": False})
    for kid in known:
        if not any(l for l in ctx.known_lines if known[kid]["what"][:40] in l):
            ctx.notes.append("NOTE stale-known-finding %s: no binding of that class failed in this run" % kid)
    if not ctx.violations and not proof.ok:
        ctx.violation("broken-theorem", "Props_C34 no longer builds: %s" % (proof.broken[:2],), theorem="typing_value_sound",
                      case={"broken": [list(x) for x in proof.broken[:3]]}, no_input=True)


def needed_ids(prog, x):
    """ids of the top-level definitions the definition of x depends on (transitively), plus functions"""
    defs = {s[1]: s[3] for s in prog if s[0] == T.S_DEF}
    need, todo = set(), [x]
    while todo:
        y = todo.pop()
        if y in need or y not in defs:
            continue
        need.add(y)
        acc = []
        T.expr_positions(defs[y], [], acc)
        todo += [e[1] for _, e in acc if e[0] == T.E_VAR]
    return need


def replay(ctx, path):
    r = json.load(open(path))
    rn = Runner(ctx)
    try:
        tree = r["case"]["tree"]
        print(T.to_erg(tree, show_bindings=True))
        (tco, ro), = rn.observe([tree])
        if ro is None:
            print("erg rejects the program")
            return
        bs = analyse(rn, tree, tco, ro)
        bad = False
        for b in bs:
            print("v%d = %s : %s   value %s   member=%s" % (b["id"], b["def"], b["type_text"], T.show_value(b["value"]), b.get("member")))
            if b.get("member") is False:
                cls = rn.model.run([[6, tree, b["id"]]])[0][0]
                print("   known_c34 class:", cls)
                bad = bad or cls == 0
        if ro.exc:
            print("run ended with", ro.exc_line)
        if bad:
            ctx.violation("failing-input", r.get("what", "replayed"), case=r["case"], judge={"has_ty": False})
    finally:
        rn.close()
