"""C23 — A moved mutable value cannot be used again.

proof:          coq/Owner/Props_C23.v over the model coq/Owner/Model.v (transcription of crates/erg_compiler/ownercheck.rs and
                SubrType::args_ownership) and the Spec coq/Owner/Spec.v (events in source order + moved-set semantics)
correspondence: generated programs (definitions of mutable objects, rebindings, containers, calls of subroutines declared with
                mutable / Ref / RefMut / immutable / generic / default / variadic parameters, methods, later uses, in module,
                function, procedure and lambda scopes, with shadowing and redefinition) are run through the real pipeline
                in-process (harness/owner: lowering + effect check, then OwnershipChecker::check); the harness dumps the tree the
                checker walked as mini-HIR (per identifier `is_mut_type()`, per call the shape of the callee's parameter
                types) and the checker's errors; the extracted model runs on that dump and must report the same errors
                (name, place, line of the move, caused_by, order) or the same panic
judge:          Spec.judge (extracted) on the lowered tree in which the type facts are replaced by what the *generator* declared
                (which variables hold mutable objects, the declared parameter types of every subroutine it calls): a use after
                a move that was accepted, or a move error at an occurrence that is no use after a move, is the failing input
"""
import concurrent.futures
from lib.vplib import *

REGISTRY = dict(
    category="proof",
    text="Coq model of OwnershipChecker (coq/Owner/Model.v: path-keyed scope dictionary, drop searching outward, check_if_dropped, "
         "args_ownership, every arm of check_expr) proved to report exactly the uses-after-move of a moved-set semantics over "
         "source-ordered events (Spec.v) for arbitrary sequences and nesting: use_after_move_rejected, no_move_no_error, "
         "ref_or_immutable_does_not_move, no panic; tied to ownercheck.rs by running the real pipeline in-process on generated "
         "programs and comparing its move errors with the extracted model run on the dumped HIR; the extracted Spec judge decides "
         "use-after-move on the tree with the generator's own type facts.",
    note="Trusted: Coq kernel, extraction + generic OCaml driver, harness/owner (abstraction HIR -> mini-HIR; reads is_mut_type() and "
         "the shape of parameter types from the type checker's annotations), the generator's declared facts (validated against the "
         "dump on every case). Theorems assume wf (no node shape the earlier stages exclude; evaluated on every dump) and "
         "well_scoped (a moved variable is bound by an enclosing definition; the checker panics otherwise). The semantics is "
         "textual (each body analysed once at its definition), as the checker's. Twelve defects found with this check were "
         "repaired (known/C23.json); their witnesses are in corpus/C23. Known finding (class Known_C23): an argument for a generic "
         "parameter is moved when the call-site type happens to be instantiated with a mutable type.",
    technique="Coq proof over hand model + in-process correspondence (extracted model on the dumped HIR vs real checker) + extracted Spec judge",
    design="DESIGN.md §4 C23")

KREF, KREFMUT, KMUT, KIMM = 0, 1, 2, 3

PREAMBLE = """own! x: List!(Int, _) =
    print! x
brw! x: Ref(List!(Int, _)) =
    print! x
brm! x: RefMut(List!(Int, _)) =
    x.push! 1
imm! x: Obj =
    print! x
gen! |T| x: T =
    print! x
two! a: List!(Int, _), b: Ref(List!(Int, _)) =
    print! a, b
owt! a: Ref(List!(Int, _)), b: List!(Int, _) =
    print! a, b
dfl! a: Ref(List!(Int, _)), b: List!(Int, _) := ![0] =
    print! a, b
dfr! a: List!(Int, _), b: Ref(List!(Int, _)) := ![0] =
    print! a, b
var! *xs: Obj =
    print! xs
ownf x: List!(Int, _) = x
reff x: Ref(List!(Int, _)) = 1
owni! x: Int! =
    print! x
pda! a: List!(Int, _), b: Ref(List!(Int, _)) := ![0], d: List!(Int, _) := ![0] =
    print! a, b, d
pdb! a: Ref(List!(Int, _)), b: List!(Int, _) := ![0], d: Ref(List!(Int, _)) := ![0] =
    print! a, b, d
fda a: List!(Int, _), b: Ref(List!(Int, _)) := ![0], d: List!(Int, _) := ![0] = 1
fdb a: Ref(List!(Int, _)), b: List!(Int, _) := ![0], d: Ref(List!(Int, _)) := ![0] = 1
pvb! a: List!(Int, _), *xs: Obj =
    print! a, xs
C = Class {.x = Int}
C.
    mt! ref self, a: Ref(List!(Int, _)), b: List!(Int, _) =
        print! a, b, self.x
    mo! ref self, a: List!(Int, _), b: Ref(List!(Int, _)) =
        print! a, b, self.x
    mda! ref self, a: List!(Int, _), b: Ref(List!(Int, _)) := ![0], d: List!(Int, _) := ![0] =
        print! a, b, d, self.x
    mdb! ref self, a: Ref(List!(Int, _)), b: List!(Int, _) := ![0], d: Ref(List!(Int, _)) := ![0] =
        print! a, b, d, self.x
c = C.new {.x = 1}
"""


def P(name, kind):
    return [[name] if name is not None else [], kind]


def SIG(nd=(), var=(), d=(), kwvar=(), method=0):
    return [1, method, list(nd), list(var), list(d), list(kwvar)]


# what the generator declared (PREAMBLE) and what the builtins it uses declare
SIGS = {
    "own!": SIG([P("x", KMUT)]), "brw!": SIG([P("x", KREF)]), "brm!": SIG([P("x", KREFMUT)]), "imm!": SIG([P("x", KIMM)]),
    "gen!": SIG([P("x", KIMM)]), "two!": SIG([P("a", KMUT), P("b", KREF)]), "owt!": SIG([P("a", KREF), P("b", KMUT)]),
    "dfl!": SIG([P("a", KREF)], d=[P("b", KMUT)]), "dfr!": SIG([P("a", KMUT)], d=[P("b", KREF)]),
    "var!": SIG(var=[P("xs", KIMM)]), "ownf": SIG([P("x", KMUT)]), "reff": SIG([P("x", KREF)]), "owni!": SIG([P("x", KMUT)]),
    "pda!": SIG([P("a", KMUT)], d=[P("b", KREF), P("d", KMUT)]), "pdb!": SIG([P("a", KREF)], d=[P("b", KMUT), P("d", KREF)]),
    "fda": SIG([P("a", KMUT)], d=[P("b", KREF), P("d", KMUT)]), "fdb": SIG([P("a", KREF)], d=[P("b", KMUT), P("d", KREF)]),
    "pvb!": SIG([P("a", KMUT)], var=[P("xs", KIMM)]),
    "print!": SIG(var=[P("objects", KREF)], d=[P("sep", KIMM), P("end", KIMM), P("file", KMUT), P("flush", KIMM)]),
}
METHOD_SIGS = {
    "mt!": SIG([P("self", KREF), P("a", KREF), P("b", KMUT)], method=1),
    "mo!": SIG([P("self", KREF), P("a", KMUT), P("b", KREF)], method=1),
    "push!": SIG([P("self", KMUT), P("elem", KIMM)], method=1),
    "mda!": SIG([P("self", KREF), P("a", KMUT)], d=[P("b", KREF), P("d", KMUT)], method=1),
    "mdb!": SIG([P("self", KREF), P("a", KREF)], d=[P("b", KMUT), P("d", KREF)], method=1),
}
# callee -> kinds of (a, b, d): one non-default and two default parameters (None: no such parameter)
ABD = {"pda!": (KMUT, KREF, KMUT), "pdb!": (KREF, KMUT, KREF), "fda": (KMUT, KREF, KMUT), "fdb": (KREF, KMUT, KREF),
       "c.mda!": (KMUT, KREF, KMUT), "c.mdb!": (KREF, KMUT, KREF)}
# (text with {a} {b} {d}, parameters passed): every number of defaults filled positionally, the rest by keyword or not at all
ABD_SHAPES = [("{f} {a}", "a"), ("{f} {a}, {b}", "ab"), ("{f} {a}, {b}, {d}", "abd"), ("{f}({a}, b := {b})", "ab"),
              ("{f}({a}, d := {d})", "ad"), ("{f}({a}, b := {b}, d := {d})", "abd"), ("{f}({a}, d := {d}, b := {b})", "abd"),
              ("{f}({a}, {b}, d := {d})", "abd"), ("{f}(a := {a}, b := {b})", "ab"), ("{f}(d := {d}, a := {a})", "ad")]
# methods without default parameters, called on the instance and through the class with explicit self
AB2 = {"c.mt!": (KREF, KMUT), "c.mo!": (KMUT, KREF), "C.mt! c,": (KREF, KMUT), "C.mo! c,": (KMUT, KREF),
       "two!": (KMUT, KREF), "owt!": (KREF, KMUT), "pvb!": (KMUT, KIMM)}


def abd_call(f, shape, a, b, d):
    text = shape.format(f=f, a=a, b=b, d=d)
    if f.startswith("f"):
        return "i0 = " + text.replace(f + " ", f + "(", 1) + ")" if not text.startswith(f + "(") else "i0 = " + text
    return text


GENERIC = ["gen!"]            # subroutines of the prelude declared with a generic parameter (class Known_C23)


def is_mut_name(n):
    """naming convention of the generator: ml<k> hold List! objects, mi<k> hold Int! objects"""
    return len(n) > 2 and n[:2] in ("ml", "mi") and n[2:].isdigit()


# ------------------------------------------------------------------ generator
class Gen:
    def __init__(self, rng, size, puse):
        self.r = rng
        self.k = 0
        self.size = size
        self.puse = puse          # probability of picking a variable that was probably moved

    def fresh(self, p):
        self.k += 1
        return "%s%d" % (p, self.k)

    def pick(self, sc, fam="ml"):
        """a visible variable of the family; prefers ones not yet moved (so that a fair share of programs is clean)"""
        vs = [v for v in sc["vars"] if v.startswith(fam)]
        if not vs:
            return None
        alive = [v for v in vs if v not in sc["moved"]]
        if alive and self.r.random() >= self.puse:
            return self.r.choice(alive)
        return self.r.choice(vs)

    def inner(self, sc, kind, sees_outer=True):
        return {"kind": kind, "vars": list(sc["vars"]) if sees_outer else [], "moved": set(sc["moved"]) if sees_outer else set(),
                "outer": sc, "depth": sc["depth"] + 1, "local": []}

    def new_var(self, sc, fam):
        v = self.fresh(fam)
        sc["vars"].append(v)
        sc["local"].append(v)
        return v

    def moved(self, sc, v):
        s = sc
        while s is not None:
            s["moved"].add(v)
            s = s["outer"]

    def stmts(self, sc, n, ind):
        out = []
        for _ in range(n):
            out.append(self.stmt(sc, ind))
        return out

    def body(self, sc, ind, n=None):
        """statement groups of a block; the block ends with an expression"""
        n = self.r.randint(1, 3) if n is None else n
        gs = self.stmts(sc, n, ind)
        sp = " " * ind
        fin = self.r.random()
        L = self.pick(sc)
        if fin < 0.15 and L and sc["kind"] == "proc":
            self.moved(sc, L)
            gs.append([sp + L])                         # the value of the block: moves
        elif sc["kind"] == "func":
            gs.append([sp + "1"])
        else:
            gs.append([sp + "print! 0"])
        return gs

    def stmt(self, sc, ind):
        r = self.r
        sp = " " * ind
        func = sc["kind"] == "func"
        L, L2, I = self.pick(sc), self.pick(sc), self.pick(sc, "mi")
        kinds = ["newl", "newl", "newi"]
        if L:
            kinds += ["rebind", "rebind", "cont", "cont", "blockval", "bare", "redef", "asc"]
            if func:
                kinds += ["callf", "callf", "dcallf"]
            else:
                kinds += ["call", "call", "call", "call", "use", "use", "use", "method", "method", "kw", "star", "dflt",
                          "dcall", "dcall", "dcall", "call2"]
        if I:
            kinds += ["iop", "iattr"] + ([] if func else ["icall"])
        if sc["depth"] < 3:
            kinds += ["proc", "lam", "lam", "func", "lamparam"] if not func else ["func"]
            if not func and L:
                kinds += ["shadow", "selfinit", "procparam"]
        k = r.choice(kinds)
        if k == "newl":
            return [sp + "%s = ![1, 2]" % self.new_var(sc, "ml")]
        if k == "newi":
            return [sp + "%s = !1" % self.new_var(sc, "mi")]
        if k == "rebind":
            self.moved(sc, L)
            return [sp + "%s = %s" % (self.new_var(sc, "ml"), L)]
        if k == "asc":
            self.moved(sc, L)
            return [sp + "%s = (%s: List!(Int, _))" % (self.new_var(sc, "ml"), L)]
        if k == "redef":
            if L in sc["local"]:
                sc["moved"].discard(L)
                return [sp + "%s = ![8]" % L]
            return [sp + "%s = ![1, 2]" % self.new_var(sc, "ml")]
        if k == "cont":
            self.moved(sc, L)
            form = r.choice(["[%s]", "(%s, 1)", "{1: %s}", "{.a = %s; .b = 1}", "[[%s], [![0]]]", "{.a = [%s]}", "[%s; 1]"])
            return [sp + "%s = %s" % (self.fresh("i"), form % L)]
        if k == "blockval":
            self.moved(sc, L)
            return [sp + "%s =" % self.new_var(sc, "ml"), sp + "    %s = 1" % self.fresh("i"), sp + "    " + L]
        if k == "bare":
            return [sp + L]
        if k == "callf":
            f = r.choice(["ownf", "reff"])
            if f == "ownf":
                self.moved(sc, L)
            return [sp + "%s = %s %s" % (self.fresh("i"), f, L)]
        if k == "call":
            f = r.choice(["own!", "brw!", "brm!", "imm!", "gen!", "two!", "owt!", "var!", "dfl!", "dfr!"])
            if f in ("own!", "brw!", "brm!", "imm!", "gen!"):
                if f == "own!":
                    self.moved(sc, L)
                return [sp + "%s %s" % (f, L)]
            if f == "var!":
                return [sp + "var! %s, %s" % (L, L2)]
            if f in ("dfl!", "dfr!") and r.random() < 0.4:
                if f == "dfr!":
                    self.moved(sc, L)
                return [sp + "%s %s" % (f, L)]
            if L == L2 and f in ("two!", "owt!", "dfl!", "dfr!") and r.random() < 0.7:
                L2 = self.pick(sc)
            self.moved(sc, L if f in ("two!", "dfr!") else L2)
            return [sp + "%s %s, %s" % (f, L, L2)]
        if k in ("dcall", "dcallf"):
            # one non-default and two default parameters; any number of the defaults positionally, by keyword, or omitted
            f = r.choice(["fda", "fdb"] if k == "dcallf" else list(ABD))
            shape, passed = r.choice(ABD_SHAPES)
            args = {"a": L, "b": L2, "d": self.pick(sc)}
            if r.random() < 0.5:
                args[r.choice("abd")] = "![9]"
            for q, kind in zip("abd", ABD[f]):
                if q in passed and kind == KMUT and args[q] != "![9]":
                    self.moved(sc, args[q])
            text = abd_call(f, shape, args["a"], args["b"], args["d"])
            return [sp + (text.replace("i0 = ", self.fresh("i") + " = ") if text.startswith("i0 = ") else text)]
        if k == "call2":
            f = r.choice(list(AB2))
            if AB2[f][0] == KMUT:
                self.moved(sc, L)
            if AB2[f][1] == KMUT:
                self.moved(sc, L2)
            return [sp + "%s %s, %s" % (f, L, L2)]
        if k == "kw":
            f = r.choice(["own", "two", "dfl", "dfr", "owt"])
            if f == "own":
                self.moved(sc, L)
                return [sp + "own!(x := %s)" % L]
            if f == "two":
                self.moved(sc, L2)
                return [sp + "two!(b := %s, a := %s)" % (L, L2)]
            if f == "owt":
                self.moved(sc, L2)
                return [sp + "owt!(%s, b := %s)" % (L, L2)]
            if f == "dfl":
                self.moved(sc, L2)
                return [sp + "dfl!(%s, b := %s)" % (L, L2)]
            self.moved(sc, L)
            return [sp + "dfr!(%s, b := %s)" % (L, L2)]
        if k == "star":
            return [sp + "var!(*[%s])" % L]
        if k == "dflt":
            p = self.fresh("p") + "!"
            a = self.fresh("d")          # the type inferred for such a parameter is not a mutable type
            return [sp + "%s(%s := %s) =" % (p, a, L), sp + "    print! %s" % a]
        if k == "use":
            form = r.choice(["print! %s", "print! %s, 1", "print! [%s]", "print! 1, (%s, 2)", "print!(%s, end := \"\")", "print! %s.copy()"])
            return [sp + form % L]
        if k == "method":
            m = r.choice(["push", "push", "mt", "mo"])
            if m == "push":
                return [sp + "%s.push! 3" % L]
            if m == "mt":
                self.moved(sc, L2)
                return [sp + "c.mt! %s, %s" % (L, L2)]
            self.moved(sc, L)
            return [sp + "c.mo! %s, %s" % (L, L2)]
        if k == "iop":
            return [sp + "%s = %s + 1" % (self.fresh("i"), I)]
        if k == "iattr":
            self.moved(sc, I)
            return [sp + "%s = %s.real" % (self.fresh("i"), I)]
        if k == "icall":
            f = r.choice(["owni!", "gen!", "imm!", "print!"])
            if f == "owni!":
                self.moved(sc, I)
            return [sp + "%s %s" % (f, I)]
        if k == "proc":
            p = self.fresh("p") + "!"
            inner = self.inner(sc, "proc")
            lines = [sp + "%s() =" % p] + [l for g in self.body(inner, ind + 4) for l in g]
            sc["moved"] |= inner["moved"] & set(sc["vars"])
            if r.random() < 0.5:
                lines.append(sp + "%s()" % p)
            return lines
        if k == "procparam":
            p = self.fresh("p") + "!"
            inner = self.inner(sc, "proc")
            a, b = self.fresh("ml"), self.fresh("r")
            inner["vars"].append(a)
            inner["local"].append(a)
            lines = [sp + "%s %s: List!(Int, _), %s: Ref(List!(Int, _)) =" % (p, a, b), sp + "    print! %s" % b] + \
                    [l for g in self.body(inner, ind + 4) for l in g]
            sc["moved"] |= inner["moved"] & set(sc["vars"])
            return lines
        if k == "func":
            f = self.fresh("f")
            inner = self.inner(sc, "func", sees_outer=False)
            a = self.fresh("ml")
            inner["vars"].append(a)
            inner["local"].append(a)
            return [sp + "%s %s: List!(Int, _) =" % (f, a)] + [l for g in self.body(inner, ind + 4) for l in g]
        if k == "lam":
            inner = self.inner(sc, "lambda")
            head = r.choice(["for! [1, 2], _ =>", "if! True, do!:", "while! do! False, do!:"])
            lines = [sp + head] + [l for g in self.body(inner, ind + 4) for l in g]
            sc["moved"] |= inner["moved"] & set(sc["vars"])
            return lines
        if k == "lamparam":
            inner = self.inner(sc, "lambda")
            a = self.fresh("ml")
            inner["vars"].append(a)
            inner["local"].append(a)
            lines = [sp + "for! [![1], ![2]], %s =>" % a] + [l for g in self.body(inner, ind + 4) for l in g]
            sc["moved"] |= inner["moved"] & set(sc["vars"])
            return lines
        if k == "shadow":
            # an inner scope defines a variable with the name of an outer one
            p = self.fresh("p") + "!"
            inner = self.inner(sc, "proc")
            inner["local"].append(L)
            inner["moved"].discard(L)
            lines = [sp + "%s() =" % p, sp + "    %s = ![7]" % L] + [l for g in self.body(inner, ind + 4) for l in g]
            sc["moved"] |= (inner["moved"] - {L}) & set(sc["vars"])
            return lines
        if k == "selfinit":
            # an inner variable initialised from the outer variable of the same name
            p = self.fresh("p") + "!"
            inner = self.inner(sc, "proc")
            self.moved(sc, L)
            inner["local"].append(L)
            inner["moved"].discard(L)
            lines = [sp + "%s() =" % p, sp + "    %s = %s" % (L, L)] + [l for g in self.body(inner, ind + 4) for l in g]
            sc["moved"] |= (inner["moved"] - {L}) & set(sc["vars"])
            return lines
        raise AssertionError(k)


def gen_body(rng):
    g = Gen(rng, 0, rng.choice([0.0, 0.1, 0.3, 0.6]))
    sc = {"kind": "module", "vars": [], "moved": set(), "outer": None, "depth": 0, "local": []}
    first = [["%s = ![1, 2]" % g.new_var(sc, "ml")] for _ in range(rng.randint(1, 2))]
    return first + g.stmts(sc, rng.randint(2, 9), 0)


def render(groups):
    return PREAMBLE + "\n".join(l for g in groups for l in g) + "\n"


# ------------------------------------------------------------------ dump helpers
def sxs(x):
    return "".join(chr(c) for c in x)


def enc(s):
    return [ord(c) for c in s]


def patch(e, stats):
    """the dumped tree with the generator's type facts: is_mut of its own variables by their names, the signatures of the
    subroutines of PREAMBLE and of the builtins it uses; counts the places where the dump says otherwise"""
    if not isinstance(e, list) or not e or not isinstance(e[0], int):
        return [patch(x, stats) for x in e] if isinstance(e, list) else e
    t = e[0]
    if t == 1 and len(e) == 4:
        name = sxs(e[2])
        if is_mut_name(name) or name in SIGS or name in ("c", "C"):
            m = 1 if is_mut_name(name) else 0
            if m != e[3]:
                stats["is_mut"] = stats.get("is_mut", 0) + 1
            return [1, e[1], e[2], m]
        return e
    if t == 3 and len(e) == 9:
        callee, attr, sg = e[2], e[3], e[4]
        want = None
        if attr:
            want = METHOD_SIGS.get(sxs(attr[0]))
            if want is not None and callee and callee[0] == 1 and sxs(callee[2]) == "C":
                want = [want[0], 0] + want[2:]          # called through the class: `self` is the first argument
        elif callee and callee[0] == 1:
            want = SIGS.get(sxs(callee[2]))
        if want is not None:
            w = [want[0], want[1]] + [[[[enc(p[0][0])] if p[0] else [], p[1]] for p in part] for part in want[2:]]
            if canon_sig(sg) != canon_sig(w):
                cname = sxs(attr[0]) if attr else sxs(callee[2])
                if cname in GENERIC and [[n for n, _k in part] for part in canon_sig(sg)[2:]] == [[n for n, _k in part] for part in canon_sig(w)[2:]]:
                    # the call-site type of a generic subroutine was instantiated (known finding generic-instantiated)
                    stats["generic_instantiated"] = stats.get("generic_instantiated", 0) + 1
                else:
                    stats["sig"] = stats.get("sig", 0) + 1
                    stats.setdefault("sig_example", [cname, canon_sig(sg), canon_sig(w)])
            sg = w
        return [3, e[1], patch(callee, stats), attr, sg, patch(e[5], stats), patch(e[6], stats),
                [[kw[0], patch(kw[1], stats)] for kw in e[7]], patch(e[8], stats)]
    return [t] + [patch(x, stats) if isinstance(x, list) else x for x in e[1:]]


def canon_sig(sg):
    if len(sg) != 6:
        return list(sg)
    m = sg[1]
    if isinstance(m, list):          # (is_method_call, callee object is the class): self is implicit iff a method not called through its class
        m = 1 if (m[0] and not m[1]) else 0
    return [sg[0], m] + [[(sxs(p[0][0]) if p[0] else None, p[1]) for p in part] for part in sg[2:]]


def loc_line(loc):
    if loc > 0:
        return loc // 10 ** 9
    if loc < 0:
        return (-loc) // 10 ** 6
    return 0


def run_parallel(h, cases, workers=16):
    if len(cases) <= 8:
        return h.run(cases, timeout=3600)
    chunk = max(4, (len(cases) + workers * 4 - 1) // (workers * 4))
    parts = [cases[i:i + chunk] for i in range(0, len(cases), chunk)]
    with concurrent.futures.ThreadPoolExecutor(max_workers=workers) as ex:
        outs = list(ex.map(lambda p: h.run(p, timeout=14400), parts))
    return [x for o in outs for x in o]


MOVE_ERROR = 17
PANIC_SITES = {1: "scope entry missing (unwrap)", 2: "variable not found", 3: "args_ownership todo!()", 4: "keyword todo!()",
               5: "comprehension todo!()", 6: "usize underflow", 7: "default parameter without a name (unwrap)"}


def canon_impl(r):
    """('ok', [(name, loc, moved_line, caused_by)]) | ('panic', msg) | ('invalid', n)"""
    st = r[0]
    if st in (-999, -997):
        # a panic / abort before the ownership checker started (lexing, parsing, lowering, effect check): not this property's stage
        return ("invalid", "earlier stage crashed: " + (sxs(r[1]) if st == -999 and len(r) > 1 else str(r)))
    if st in (0, 1):
        return ("ok", [(sxs(e[2]), e[1], e[3], sxs(e[4])) for e in r[1] if e[0] == MOVE_ERROR] +
                [("?kind%d" % e[0], e[1], e[3], sxs(e[4])) for e in r[1] if e[0] != MOVE_ERROR])
    if st == 4:
        return ("panic", sxs(r[3]))
    return ("invalid", st)


def canon_model(m):
    if m[0] == 0:
        return ("ok", [(sxs(e[0]), e[1], loc_line(e[2]), sxs(e[3])) for e in m[1]])
    if m[0] == -1:
        return ("panic", PANIC_SITES.get(m[1], str(m[1])))
    return ("harness", str(m))


def same(ci, cm):
    if ci[0] != cm[0]:
        return False
    if ci[0] == "ok":
        return ci[1] == cm[1]
    if ci[0] == "panic":
        return (cm[1] == "variable not found") == ci[1].startswith("variable not found")
    return True


class Case:
    def __init__(self, src, kind="gen", groups=None, label=None, patch=True):
        self.src, self.kind, self.groups, self.label, self.patch = src, kind, groups, label, patch


VERDICT = {0: "ok", 1: "a use after a move was accepted", 2: "an occurrence that is no use after a move was rejected with a move error",
           3: "the ownership checker crashed on a well-scoped program"}


def evaluate(ctx, h, model, cases):
    impl = run_parallel(h, [[c.src] for c in cases])
    mcases, jcases, idx = [], [], []
    results = []
    for k, (c, r) in enumerate(zip(cases, impl)):
        ci = canon_impl(r)
        res = {"case": c, "impl": ci, "model": None, "corr": None, "facts": {}, "judge": None, "status": r[0]}
        results.append(res)
        if ci[0] not in ("ok", "panic"):
            continue
        hir = r[2]
        name = r[4] if len(r) > 4 else enc("<string>")
        mcases.append([0, name, hir])
        ph = patch(hir, res["facts"]) if c.patch else hir
        rep = [[enc(n), loc] for (n, loc, _ln, _by) in ci[1]] if ci[0] == "ok" else []
        jcases.append([1, ph, rep, [enc(g) for g in GENERIC]])
        idx.append(k)
    out = model.run(mcases + jcases) if mcases else []
    mres, jres = out[:len(mcases)], out[len(mcases):]
    for k, m, j in zip(idx, mres, jres):
        res = results[k]
        res["model"] = canon_model(m)
        if not same(res["impl"], res["model"]):
            res["corr"] = {"impl": res["impl"], "model": res["model"]}
        verdict, wf, ws = j[0], j[1], j[2]
        uams = [(sxs(u[0]), u[1], loc_line(u[2])) for u in j[3]]
        if res["impl"][0] == "panic":
            verdict = 3 if ws else 0
        res["judge"] = {"verdict": verdict, "wf": wf, "well_scoped": ws, "uams": uams, "known_class": j[4] if len(j) > 4 else 0}
    return results


# ------------------------------------------------------------------ systematic placements: the property statement, literally
# {v}: the variable under test; ml8 / ml5: other mutable variables defined before
MOVES = {
    "rebind": "ml9 = {v}", "list": "i9 = [{v}]", "tuple": "i9 = ({v}, 1)", "dict": "i9 = {{1: {v}}}",
    "record": "i9 = {{.a = {v}; .b = 1}}", "nested": "i9 = [[{v}], [![0]]]", "listlen": "i9 = [{v}; 1]",
    "own": "own! {v}", "two_first": "two! {v}, ml8", "owt_second": "owt! ml8, {v}", "kw": "own!(x := {v})",
    "kw_two": "two!(b := ml8, a := {v})", "dfl_kw": "dfl!(ml8, b := {v})", "dfl_pos": "dfl! ml8, {v}", "dfr": "dfr! {v}",
    "mo_first": "c.mo! {v}, ml8", "mt_second": "c.mt! ml8, {v}", "blockval": "ml9 =\n    i7 = 1\n    {v}",
    "asc": "ml9 = ({v}: List!(Int, _))",
}
NONMOVES = {
    "brw": "brw! {v}", "brm": "brm! {v}", "imm": "imm! {v}", "gen": "gen! {v}", "var": "var! {v}, {v}", "print": "print! {v}",
    "printlist": "print! [{v}]", "star": "var!(*[{v}])", "bare": "{v}", "two_second": "two! ml8, {v}", "owt_first": "owt! {v}, ml8",
    "mt_first": "c.mt! {v}, ml8", "mo_second": "c.mo! ml8, {v}", "push": "{v}.push! 1", "dflt": "p7!(d7 := {v}) =\n    print! d7",
    "retproc": "p7!() = {v}", "retlam": "if! True, do! {v}", "dfr_kw": "dfr!(ml8, b := {v})", "none": "i9 = 1",
}
USES = {
    "print": "print! {v}", "receiver": "{v}.push! 2", "rebind": "ml6 = {v}", "list": "i6 = [{v}]", "kw": "own!(x := {v})",
    "star": "var!(*[{v}])", "dflt": "p6!(d6 := {v}) =\n    print! d6", "method": "c.mt! {v}, ml5", "borrow": "brw! {v}", "bare": "{v}",
    "nestedproc": "p6!() =\n    print! {v}", "lambda": "for! [1, 2], _ =>\n    print! {v}", "deep": "print! [({v}, 1)], {{1: [{v}]}}",
}
WRAPS = ["module", "proc", "lambda", "inner_move", "param"]


def indent(text, n):
    return "\n".join(" " * n + l for l in text.split("\n"))


def placement(first, use, wrap):
    """(source after the prelude, label): v defined, then `first` (a moving or a non-moving statement), then `use`"""
    v = "ml1"
    a, u = first.format(v=v), use.format(v=v)
    pre = "ml8 = ![8]\nml5 = ![5]\nml4 = ![4]\n"
    if wrap == "module":
        return pre + "ml1 = ![1, 2]\n%s\n%s\n" % (a, u)
    if wrap == "proc":
        return "p2!() =\n" + indent(pre + "ml1 = ![1, 2]\n%s\n%s\nprint! 0" % (a, u), 4) + "\np2!()\n"
    if wrap == "lambda":
        return pre + "ml1 = ![1, 2]\nfor! [1, 2], _ =>\n" + indent("%s\n%s\nprint! 0" % (a, u), 4) + "\n"
    if wrap == "inner_move":
        return pre + "ml1 = ![1, 2]\nif! True, do!:\n" + indent("%s\nprint! 0" % a, 4) + "\n%s\n" % u
    if wrap == "param":
        return pre + "p2! ml1: List!(Int, _) =\n" + indent("%s\n%s\nprint! 0" % (a, u), 4) + "\n"
    raise AssertionError(wrap)


def param_position_firsts():
    """(label, statement, moves?): {v} at every parameter position of every callee kind, for every way of passing the defaults"""
    out = []
    others = {"a": "ml8", "b": "ml5", "d": "ml4"}
    for f, kinds in ABD.items():
        for shape, passed in ABD_SHAPES:
            for q, kind in zip("abd", kinds):
                if q not in passed:
                    continue
                args = dict(others)
                args[q] = "{v}"
                out.append(("%s %s at %s" % (f, shape.replace("{f}", "").strip(), q),
                            abd_call(f, shape, args["a"], args["b"], args["d"]).replace("i0 = ", "i9 = "), kind == KMUT))
    for f, kinds in AB2.items():
        for i, kind in enumerate(kinds):
            args = ["ml8", "ml5"]
            args[i] = "{v}"
            out.append(("%s at %d" % (f, i), "%s %s, %s" % (f, args[0], args[1]), kind == KMUT))
    out.append(("pvb! variadic", "pvb! ml8, ml5, {v}", False))
    return out


def systematic_cases(rng=None, sample=None, sample_params=None):
    pp = [(lbl, st, mv, uk, USES[uk], w) for (lbl, st, mv) in param_position_firsts()
          for uk in ("print", "receiver", "rebind") for w in ("module", "lambda")]
    if sample_params is not None and len(pp) > sample_params:
        pp = rng.sample(pp, sample_params)
    combos = [(k, a, True) for k, a in MOVES.items()] + [(k, a, False) for k, a in NONMOVES.items()]
    allc = [(fk, fa, mv, uk, ua, w) for (fk, fa, mv) in combos for uk, ua in USES.items() for w in WRAPS]
    if sample is not None and len(allc) > sample:
        allc = rng.sample(allc, sample)
    out = []
    for fk, fa, mv, uk, ua, w in allc + pp:
        c = Case(PREAMBLE + placement(fa, ua, w), "systematic", None, "%s then %s in %s" % (fk, uk, w))
        c.expect_uam = mv          # the property statement: a use after a moving statement is rejected, after any other it is not
        out.append(c)
    return out


def corpus_cases():
    out = []
    d = os.path.join(VERIF, "corpus", "C23")
    if os.path.isdir(d):
        for f in sorted(os.listdir(d)):
            if f.endswith(".json"):
                j = json.load(open(os.path.join(d, f)))
                src = (PREAMBLE if j.get("preamble", True) else "") + j["src"]
                out.append(Case(src, "corpus", None, f, patch=j.get("patch", True)))
    return out


def gen_cases(ctx, n):
    out = []
    for _ in range(n):
        groups = gen_body(ctx.rng)
        out.append(Case(render(groups), "gen", groups))
    return out


def run(ctx):
    ctx.cov["rule"] = ("generated modules over a fixed prelude of subroutines declared with List!/Ref/RefMut/Obj/generic/default/"
                       "variadic parameters and a class with two methods: definitions of mutable objects (![..], !1), rebindings, "
                       "list/tuple/dict/record literals (nested), block values, type ascriptions, calls with positional, keyword, "
                       "default and *-unpacked arguments, methods (push!, user methods with ref self), prints, attribute reads, "
                       "operators, bare chunks, in module / procedure / function / lambda (for!, if!, while!) scopes nested up to "
                       "depth 3, with parameters, default values, shadowing, self-initialisation and redefinition, placed by a "
                       "seeded PRNG that prefers not-yet-moved variables with a per-program probability; plus corpus/C23. "
                       "non-trivial = distinct source on which the ownership checker ran and whose tree is wf and well-scoped")
    ctx.cov["trusted_base"] = ["Coq 8.16.1 kernel", "extraction (ExtrOcamlBasic only) + extract/driver.ml",
                               "harness/owner/src/main.rs (runs HIRBuilder with ownership_check off, dumps hir::Expr as mini-HIR, then "
                               "OwnershipChecker::check; per parameter the arm of args_ownership its type takes, per identifier is_mut_type())",
                               "checks/c23.py: the declared facts of its prelude (compared with the dump on every case)"]
    ctx.assumptions = ["wf: lowering of Erg source produces no ReDef/Code/Compound/Dummy nodes with sub-expressions, no comprehension "
                       "literals, no call of a non-subroutine with arguments, no surplus positional or unknown keyword arguments "
                       "(evaluated on every dumped tree; counted)",
                       "well_scoped: every moved variable is bound by an enclosing definition or parameter (otherwise drop panics)",
                       "the order of analysis is the textual order; each subroutine body is analysed once, at its definition"]
    proof = ctx.coq(["Owner/Props_C23.v"])
    h = Harness(ctx, "owner", env=ctx.erg_env())
    model = ctx.model("Owner")
    cases = corpus_cases() + systematic_cases(ctx.rng, ctx.scale(150, None), ctx.scale(120, None)) + gen_cases(ctx, ctx.scale(450, 4000))
    if ctx.thorough:
        ctx.cov["exhaustive_small_scope"] = ("every moving statement (%d) and every non-moving statement (%d) followed by every kind of "
                                             "use (%d) in every scope arrangement (%d); the variable at every parameter position (non-default, "
                                             "default, variadic) of every callee kind (procedure, function, method on the instance, method "
                                             "through the class) for every way of passing the defaults (%d call statements x 3 uses x 2 scopes)"
                                             % (len(MOVES), len(NONMOVES), len(USES), len(WRAPS), len(param_position_firsts())))
    ctx.log("%d cases" % len(cases))
    results = evaluate(ctx, h, model, cases)
    report(ctx, proof, h, model, results)


def report(ctx, proof, h, model, results):
    n_corr = n_facts = n_invalid = n_outside = n_spec = 0
    first_corr = first_facts = first_spec = None
    viol = []
    known = {k["class"]: k for k in ctx.known() if "class" in k}
    for r in results:
        c = r["case"]
        ctx.count("kind:" + c.kind)
        st = r["status"]
        ctx.count("status:%s" % {0: "accepted", 1: "move errors", 2: "lowering/effect check failed", 3: "syntax error",
                                 4: "ownership checker panicked"}.get(st, "earlier stage crashed"))
        j = r["judge"]
        ok = j is not None and j["wf"] == 1 and j["well_scoped"] == 1
        ctx.case(c.src, nontrivial=ok, sample={"src": c.src[len(PREAMBLE):]} if c.kind == "gen" and st == 1 else None)
        if j is None:
            n_invalid += 1
            if isinstance(r["impl"][1], str) and r["impl"][1].startswith("earlier stage crashed"):
                ctx.count("status:an earlier stage crashed (not analysed)")
                if len(ctx.notes) < 3:
                    ctx.notes.append("lowering crashed (outside C23): %s on\n%s" % (r["impl"][1][:120], c.src[len(PREAMBLE):][:1500]))
            continue
        ctx.count("uses-after-move per program: %s" % min(len(j["uams"]), 3))
        if not ok:
            n_outside += 1
            ctx.count("outside wf/well_scoped")
        if r["corr"]:
            n_corr += 1
            first_corr = first_corr or {"src": c.src, "detail": r["corr"]}
        if r["facts"].get("generic_instantiated"):
            ctx.count("call-site type of a generic subroutine instantiated")
        if r["facts"].get("is_mut") or r["facts"].get("sig"):
            n_facts += 1
            first_facts = first_facts or {"src": c.src, "detail": r["facts"]}
        exp = getattr(c, "expect_uam", None)
        if exp is not None and ok and exp != (len(j["uams"]) > 0):
            n_spec += 1
            first_spec = first_spec or {"src": c.src, "detail": {"label": c.label, "statement says use-after-move": exp, "Spec": j["uams"]}}
        if j["verdict"] != 0 and (ok or j["verdict"] == 3):
            if j["verdict"] == 2 and j["known_class"] == 1 and r["facts"].get("generic_instantiated") and "Known_C23" in known:
                ctx.count("known-class observations")
                ctx.known_finding(known["Known_C23"])
            else:
                viol.append((r, j, VERDICT[j["verdict"]]))
    ctx.cov["not_analysed"] = n_invalid
    ctx.cov["outside_assumptions"] = n_outside
    ctx.cov["type_fact_mismatches"] = n_facts
    ctx.cov["model_disagreements"] = n_corr
    ctx.cov["spec_vs_statement_mismatches"] = n_spec
    seen = set()
    for r, j, what in viol:
        if what in seen or len(seen) >= 3:
            continue
        seen.add(what)
        c = r["case"]
        src = shrink_source(ctx, h, model, c, j) if c.groups else c.src
        if src != c.src:
            r2 = evaluate(ctx, h, model, [Case(src, "shrunk", None, c.label)])[0]
            if r2["judge"] is not None and r2["judge"]["verdict"] == j["verdict"]:
                r, j = r2, r2["judge"]
            else:
                src = c.src
        ctx.violation("failing-input", what, case={"src": src, "label": c.label}, impl=r["impl"], model=r["model"], judge=j)
    if not viol and (n_corr or n_facts or n_spec or not proof.ok):
        what = []
        if not proof.ok:
            what.append("theorem(s) no longer check: " + proof.summary())
        if n_corr:
            what.append("%d programs on which the extracted model and OwnershipChecker differ" % n_corr)
        if n_facts:
            what.append("%d programs whose lowered tree carries other type facts than the generator declared" % n_facts)
        if n_spec:
            what.append("%d systematic programs on which the Spec's moved-set semantics and the property statement differ" % n_spec)
        ctx.violation("broken-correspondence" if (n_corr or n_facts or n_spec) else "broken-theorem", "; ".join(what),
                      case=first_corr or first_facts or first_spec, theorem=proof.summary() or None, no_input=True)


def shrink_source(ctx, h, model, c, j):
    """drop statement groups while the same verdict persists"""
    def fails(sub):
        r = evaluate(ctx, h, model, [Case(render(sub), "shrink", sub)])[0]
        return (r["judge"] is not None and r["judge"]["verdict"] == j["verdict"] and r["judge"]["wf"] == 1 and
                not (j["verdict"] == 2 and r["facts"].get("generic_instantiated")))
    try:
        small = shrink_list(c.groups, fails, budget=60) if len(c.groups) > 1 else c.groups
        return render(small)
    except Exception:
        return c.src


def replay(ctx, path):
    r = json.load(open(path))
    h = Harness(ctx, "owner", env=ctx.erg_env())
    model = ctx.model("Owner")
    src = r["case"]["src"]
    res = evaluate(ctx, h, model, [Case(src, "replay", None, patch=src.startswith(PREAMBLE))])[0]
    print(src)
    print("impl  :", res["impl"])
    print("model :", res["model"])
    j = res["judge"]
    if j is None:
        print("judge : the ownership checker did not run (status %s)" % res["status"])
        return
    print("judge : uses-after-move %s wf=%s well_scoped=%s -> %s" % (j["uams"], j["wf"], j["well_scoped"], VERDICT.get(j["verdict"], j["verdict"])))
    known = {k["class"]: k for k in ctx.known() if "class" in k}
    if j["verdict"] == 2 and j["known_class"] == 1 and res["facts"].get("generic_instantiated") and "Known_C23" in known:
        ctx.known_finding(known["Known_C23"])
    elif j["verdict"] != 0:
        ctx.violation("failing-input", VERDICT[j["verdict"]], case={"src": src}, impl=res["impl"], model=res["model"], judge=j)
