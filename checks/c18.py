"""C18 — the JSON transpile target emits valid JSON with the bound values.

proof:          coq/Emit/Props_C18.v over the model coq/Emit/Json.v (transcription of JsonGenerator in
                crates/erg_compiler/transpile.rs) against the RFC 8259 parser coq/Emit/JsonSpec.v
correspondence: bytes of `erg transpile --target json m.er` (file m.json next to the source) == text printed by the
                extracted model for the same module (exact equality; for references to bound dict/record
                constants, whose HashMap order is not observable from the source, equality of the parsed objects)
judge:          Python's json module (independent oracle): json.loads(output) == the object {name: value} built by
                the generator (ints exact, floats by value, bool/None/str by type); the extracted Coq judge
                (json_parse + comparison with module_obj) is run on the same outputs and must agree
spec validation: the extracted json_parse is compared with json.loads on every real output and on a stream of
                mutated (mostly invalid) JSON texts
"""
import concurrent.futures
import decimal
import tempfile

from lib.vplib import *

REGISTRY = dict(
    category="proof",
    text="Coq model of JsonGenerator (coq/Emit/Json.v) with the theorem that every module of constant bindings "
         "(numbers, strings over all code points, booleans, None, lists, tuples, records, string-keyed dicts, nesting "
         "unbounded) is printed as an RFC 8259 text denoting {name: value} (executable grammar coq/Emit/JsonSpec.v); "
         "tied to the code by byte equality of `erg transpile --target json` output with the extracted model; "
         "Python's json.loads is the independent judge.",
    note="Trusted: Coq kernel, extraction + generic OCaml driver, Rust's integer/float Display (float expansion "
         "cross-checked against Python repr), the frontend's evaluation of a literal token to its value (known "
         "finding: strings beginning/ending with two quotes are mis-valued by ValueObj::from_str). "
         "binds lookup of accessors is abstracted (the looked-up constant is part of the model input).",
    technique="Coq proof over hand model + byte-level correspondence (extracted model vs erg CLI) + json.loads oracle",
    design="DESIGN.md §4 C18")

KEYWORDS = {"if", "for", "while", "do", "then", "else", "in", "not", "and", "or", "is", "isnot", "import", "del",
            "assert", "print", "log", "class", "match", "return", "yield", "as", "True", "False", "None", "self", "ref",
            "dot", "id", "abs", "all", "any", "len", "str", "int", "nat", "float", "bool", "ord", "chr", "exit", "quit",
            "i", "discard"}
NASTY = ['"', "\\", "\n", "\r", "\0", "\x01", "\x09", "\x1f", "\x7f", "{", "}", "'", " ", "/", "é", "ÿ",
         " ", "�", "\U0001F600", "\U0010FFFF", "a", "Z", "0", "あ"]
BIDI = set(range(0x202A, 0x202F)) | set(range(0x2066, 0x206A))


# ---------------------------------------------------------------- generator
def gen_str(rng, maxlen=8):
    n = rng.choice([0, 1, 1, 2, 3, rng.randint(0, maxlen)])
    out = []
    for _ in range(n):
        k = rng.random()
        if k < 0.55:
            out.append(rng.choice(NASTY))
        elif k < 0.75:
            out.append(chr(rng.randint(0x20, 0x7e)))
        elif k < 0.85:
            out.append(chr(rng.randint(0, 0xff)))
        else:
            while True:
                c = rng.randint(0x100, 0x10FFFF)
                if not (0xD800 <= c <= 0xDFFF) and c not in BIDI:
                    break
            out.append(chr(c))
    return "".join(out)


def str_src(rng, s):
    """an Erg single-line literal denoting s, choosing among the escape forms the lexer offers"""
    out = ['"']
    for ch in s:
        c = ord(ch)
        if ch == '"':
            out.append('\\"')
        elif ch == "\\":
            out.append("\\\\")
        elif ch == "\n":
            out.append("\\n")
        elif ch == "\r":
            out.append("\\r")
        elif ch == "\0":
            out.append("\\0")
        elif ch == "'" and rng.random() < 0.5:
            out.append("\\'")
        elif c < 0x20 or c == 0x7f:
            out.append("\\x%02x" % c)
        elif c < 0x100 and rng.random() < 0.3:
            out.append("\\x%02X" % c if rng.random() < 0.5 else "\\x%02x" % c)
        else:
            out.append(ch)
    out.append('"')
    return "".join(out)


LEAVES = ["nat", "nat", "int", "float", "float", "str", "str", "str", "bool", "none"]


def gen_shape(rng, depth, nodict=False, leaves=None):
    """nodict: inside a list all elements must have one Erg type; dict types mention their keys, so no dicts there.
    leaves: restrict the scalar kinds (biased batches of the failing-input search)"""
    if depth <= 0 or rng.random() < 0.35:
        return (rng.choice(leaves or LEAVES),)
    k = rng.choice(["list", "tuple", "record"] + ([] if nodict else ["dict"]))
    if k == "list":
        return ("list", gen_shape(rng, depth - 1, True, leaves), rng.choice([0, 1, 2, 3]))
    if k == "tuple":
        return ("tuple", [gen_shape(rng, depth - 1, nodict, leaves) for _ in range(rng.choice([0, 1, 2, 3]))])
    if k == "record":
        names = []
        for _ in range(rng.choice([0, 1, 2, 3])):
            nm = rng.choice("abcdefgxyz") + rng.choice(["", "1", "_k", "q"])
            if nm not in names and nm not in KEYWORDS:
                names.append(nm)
        return ("record", [(nm, gen_shape(rng, depth - 1, nodict, leaves)) for nm in names])
    return ("dict", gen_shape(rng, depth - 1, False, leaves), rng.choice([0, 1, 2, 3]))


def float_expansion(x):
    """(neg, int digits, fraction digits) of the shortest round-trip decimal of x, without exponent"""
    d = decimal.Decimal(repr(x))
    s = format(d, "f")
    neg = s.startswith("-")
    s = s.lstrip("-")
    ip, _, fp = s.partition(".")
    fp = fp.rstrip("0")
    return neg, [int(c) for c in ip], [int(c) for c in fp]


TINY = [5e-324, 1e-323, 2.2250738585072009e-308, 2.2250738585072014e-308, 1e-300, 1e-200, 1e-100, 1e-30, 1e-17,
        2.220446049250313e-16, 1e-15, 1e-12, 1e-11, 9.9e-11, 1e-10, 1.1e-10, 1e-9, 1e-7, 1e-5, 0.001, 0.1, 0.3, 0.5, 0.999999999999]
BASES = [0.0, 1.0, 2.0, 3.0, 7.0, 10.0, 255.0, 1e6, 123456.0, 2.0 ** 31, 2.0 ** 32, 1e9, 1e12, 2.0 ** 52, 2.0 ** 53, 1e15, 1e16, 1e17,
         1e21, 1e22, 1e23, 1e100, 1e200, 1e300, 8.98846567431158e307, 1.7976931348623157e308]


def special_float(rng):
    """finite doubles across the whole exponent range: subnormals, tiny fractional parts on small and large integers,
    neighbours (1 ulp) of integers and of the 1e15/1e16/1e17 and 1e21/1e22 boundaries, the largest double; both signs"""
    import math
    r = rng.random()
    if r < 0.2:
        x = rng.choice(TINY)
    elif r < 0.5:
        x = rng.choice(BASES) + rng.choice(TINY)                   # n + tiny (absorbed when n is large)
    elif r < 0.7:
        b = rng.choice(BASES + TINY)
        x = math.nextafter(b, math.inf if rng.random() < 0.5 else -math.inf)   # n +- 1 ulp
    elif r < 0.8:
        x = rng.choice(BASES)
    elif r < 0.9:
        x = math.ldexp(rng.random() + 0.5, rng.randint(-1074, 1023))            # any binade
    else:
        x = rng.choice(BASES[:12]) + rng.random() * rng.choice(TINY)           # n + random tiny fraction
    if x == math.inf:
        x = 1.7976931348623157e308
    return -x if rng.random() < 0.3 else x


def float_src(x):
    """decimal Erg literal (no exponent syntax) of the double x: its shortest round-trip digits written out"""
    s = format(decimal.Decimal(repr(x)), "f")
    return s if "." in s else s + ".0"


def gen_value(rng, shape):
    """value tree: (kind, python value, erg source, token text)"""
    k = shape[0]
    if k == "nat":
        n = rng.choice([0, 1, 7, 10, 31, 255, 1000, 65536, 2 ** 31, 2 ** 32 - 1, 2 ** 63, 2 ** 64 - 1, rng.randint(0, 10 ** 6),
                        rng.randint(0, 2 ** 64 - 1)])
        form = rng.choice(["d", "d", "d", "_", "x", "b", "o"])
        if form == "d":
            src = str(n)
        elif form == "_":
            src = str(n)
            if len(src) > 1:
                p = rng.randint(1, len(src) - 1)
                src = src[:p] + "_" + src[p:]
        elif form == "x":
            src = "0x%X" % n
        elif form == "b":
            n = n % 1024
            src = "0b" + bin(n)[2:]
        else:
            src = "0o" + oct(n)[2:]
        return ("int", n, src, src)
    if k == "int":
        n = -rng.choice([1, 2, 9, 10, 128, 1000, 2 ** 31, rng.randint(1, 2 ** 31)])
        return ("int", n, str(n), str(n))
    if k == "float":
        if rng.random() < 0.5:
            x = special_float(rng)
            src = float_src(x)
            if rng.random() < 0.1 and "." in src and len(src.split(".")[0].lstrip("-")) > 1:
                i = 2 if src.startswith("-") else 1
                src = src[:i] + "_" + src[i:]
            return ("float", x, src, src)
        ip = rng.choice(["0", "1", "3", "10", "255", str(rng.randint(0, 10 ** 6)), str(rng.randint(0, 10 ** 18)),
                         "123456789012345678901234567890"])
        fp = rng.choice(["0", "5", "25", "125", "1", "14159", "000000001", str(rng.randint(0, 10 ** 9)), "10",
                         "0" * rng.randint(9, 30) + str(rng.randint(1, 999))])
        src = ip + "." + fp
        if rng.random() < 0.15 and len(ip) > 1:
            src = ip[:1] + "_" + ip[1:] + "." + fp
        if rng.random() < 0.3:
            src = "-" + src
        if rng.random() < 0.01:
            src = "1" + "0" * 400 + ".0"      # parses to an infinite f64: no JSON form, must be declined
        return ("float", float(src.replace("_", "")), src, src)
    if k == "str":
        s = gen_str(rng)
        if rng.random() < 0.06 and '"""' not in s and not s.endswith('"') and "\\" not in s and \
                all(ord(c) >= 0x20 or c == "\n" for c in s) and "\x7f" not in s and "\r" not in s:
            src = '"""' + s + '"""'          # multi-line literal (raw newlines)
            return ("str", s, src, src)
        return ("str", s, str_src(rng, s), '"' + s + '"')
    if k == "bool":
        b = rng.random() < 0.5
        return ("bool", b, "True" if b else "False", "True" if b else "False")
    if k == "none":
        return ("none", None, "None", "None")
    if k == "list":
        vs = [gen_value(rng, shape[1]) for _ in range(shape[2])]
        return ("list", vs, "[" + ", ".join(v[2] for v in vs) + "]", None)
    if k == "tuple":
        vs = [gen_value(rng, s) for s in shape[1]]
        src = "(" + ", ".join(v[2] for v in vs) + ("," if len(vs) == 1 else "") + ")"
        return ("tuple", vs, src, None)
    if k == "record":
        fs = [(nm, gen_value(rng, s)) for nm, s in shape[1]]
        src = "{" + "; ".join("%s = %s" % (nm, v[2]) for nm, v in fs) + "}" if fs else "{=}"
        return ("record", fs, src, None)
    if k == "dict":
        kvs, seen = [], set()
        for _ in range(shape[2]):
            ks = gen_str(rng, 4)
            if ks in seen:
                continue
            seen.add(ks)
            kvs.append((("str", ks, str_src(rng, ks), '"' + ks + '"'), gen_value(rng, shape[1])))
        src = "{" + ", ".join("%s: %s" % (kk[2], v[2]) for kk, v in kvs) + "}" if kvs else "{:}"
        return ("dict", kvs, src, None)
    raise AssertionError(k)


def to_py(v):
    k = v[0]
    if k in ("int", "float", "str", "bool", "none"):
        return v[1]
    if k in ("list", "tuple"):
        return [to_py(x) for x in v[1]]
    if k == "record":
        return {nm: to_py(x) for nm, x in v[1]}
    return {kk[1]: to_py(x) for kk, x in v[1]}


def to_mvalue(v):
    """wire form of the model's `value`"""
    k = v[0]
    if k == "int":
        return [0, v[1]]
    if k == "float":
        x = v[1]
        if x != x or x in (float("inf"), float("-inf")):
            return [2]
        neg, ip, fp = float_expansion(x)
        return [1, neg, ip, fp]
    if k == "str":
        return [3, v[1]]
    if k == "bool":
        return [4, v[1]]
    if k == "none":
        return [5]
    if k == "list":
        return [7, [to_mvalue(x) for x in v[1]]]
    if k == "tuple":
        return [8, [to_mvalue(x) for x in v[1]]]
    if k == "record":
        return [9, [[nm, to_mvalue(x)] for nm, x in v[1]]]
    return [10, [[to_mvalue(kk), to_mvalue(x)] for kk, x in v[1]]]


def to_mexpr(v):
    """wire form of the model's `expr` for a literal initialiser"""
    k = v[0]
    if k in ("int", "float", "str", "bool", "none"):
        return [0, v[3], to_mvalue(v)]
    if k == "list":
        return [2, [to_mexpr(x) for x in v[1]]]
    if k == "tuple":
        return [3, [to_mexpr(x) for x in v[1]]]
    if k == "record":
        return [4, [[nm, to_mexpr(x)] for nm, x in v[1]]]
    return [5, [[to_mexpr(kk), to_mexpr(x)] for kk, x in v[1]]]


def has_map(v):
    k = v[0]
    if k in ("record", "dict"):
        return True
    if k in ("list", "tuple"):
        return any(has_map(x) for x in v[1])
    return False


def kinds(v, acc):
    acc.add(v[0])
    if v[0] in ("list", "tuple"):
        for x in v[1]:
            kinds(x, acc)
    elif v[0] == "record":
        for _, x in v[1]:
            kinds(x, acc)
    elif v[0] == "dict":
        for kk, x in v[1]:
            kinds(x, acc)
    return acc


def gen_module(rng, nb, leaves=None):
    """list of bindings: dict(public, name, src, mexpr, py, order_free, kinds)"""
    out = []
    for i in range(nb):
        name = "%s%d" % (rng.choice(["v", "w", "k_", "zz", "u"]), i)
        public = rng.random() < 0.8
        r = rng.random()
        if r < 0.10 and out:
            # reference to an earlier bound constant: Expr::Accessor -> binds.get
            tgt = rng.choice(out)
            if tgt["value"] is not None:
                ref = ("." if tgt["public"] else "") + tgt["name"]
                out.append(dict(public=public, name=name, src=ref, mexpr=[1, [to_mvalue(tgt["value"])], ref],
                                py=tgt["py"], order_free=has_map(tgt["value"]), value=tgt["value"], kinds={"ref"}))
                continue
        if r < 0.14:
            a, b = rng.randint(0, 1000), rng.randint(0, 1000)
            out.append(dict(public=public, name=name, src="%d + %d" % (a, b), mexpr=[6, [[0, a + b]]],
                            py=a + b, order_free=False, value=("int", a + b, "", ""), kinds={"binop"}))
            continue
        v = gen_value(rng, gen_shape(rng, rng.choice([0, 1, 2, 3, 3]), False, leaves))
        out.append(dict(public=public, name=name, src=v[2], mexpr=to_mexpr(v), py=to_py(v), order_free=False, value=v,
                        kinds=kinds(v, set())))
    return out


def module_src(bs):
    return "".join("%s%s = %s\n" % ("." if b["public"] else "", b["name"], b["src"]) for b in bs)


def module_wire(bs):
    return [[0, b["public"], b["name"], b["mexpr"]] for b in bs]


def module_py(bs):
    return {b["name"]: b["py"] for b in bs if b["public"]}


# ---------------------------------------------------------------- oracle
class NotJson(Exception):
    pass


def _reject(c):
    raise NotJson(c)


def oracle_loads(text):
    """Python's json module restricted to RFC 8259 (NaN/Infinity rejected)"""
    try:
        return True, json.loads(text, parse_constant=_reject)
    except (ValueError, NotJson, RecursionError):
        return False, None


def same(a, b):
    """expected vs parsed: bool/None/str/containers by type and value; numbers: ints exact, floats by value"""
    if isinstance(a, bool) or isinstance(b, bool):
        return isinstance(a, bool) and isinstance(b, bool) and a == b
    if a is None or b is None:
        return a is None and b is None
    if isinstance(a, str) or isinstance(b, str):
        return isinstance(a, str) and isinstance(b, str) and a == b
    if isinstance(a, float) and isinstance(b, (int, float)):
        try:
            return float(b) == a        # a JSON number has one value; 1e17-sized floats are printed without a fraction
        except OverflowError:
            return False
    if isinstance(a, int) and isinstance(b, (int, float)):
        return isinstance(b, int) and a == b
    if isinstance(a, list) and isinstance(b, list):
        return len(a) == len(b) and all(same(x, y) for x, y in zip(a, b))
    if isinstance(a, dict) and isinstance(b, dict):
        return set(a) == set(b) and all(same(a[k], b[k]) for k in a)
    return False


def jv_to_py(j, ref=None):
    """decoded jvalue from the extracted parser -> python object comparable with json.loads' result"""
    k = j[0]
    if k == 0:
        return None
    if k == 1:
        return bool(j[1])
    if k == 2:
        neg, m, e = j[1], j[2], j[3]
        if e >= 0 and not (isinstance(ref, float)):
            x = m * 10 ** e
            return -x if neg else x
        x = float("%de%d" % (m, e))       # correctly rounded; overflow -> inf, underflow -> 0.0
        return -x if neg else x
    if k == 3:
        return sx_str(j[1])
    if k == 4:
        r = ref if isinstance(ref, list) else []
        return [jv_to_py(x, r[i] if i < len(r) else None) for i, x in enumerate(j[1])]
    out = {}
    for kk, x in j[1]:
        key = sx_str(kk)
        out[key] = jv_to_py(x, ref.get(key) if isinstance(ref, dict) else None)
    return out


def dup_keys(j):
    if j[0] == 4:
        return any(dup_keys(x) for x in j[1])
    if j[0] == 5:
        ks = [tuple(kk) for kk, _ in j[1]]
        return len(set(ks)) != len(ks) or any(dup_keys(x) for _, x in j[1])
    return False


# ---------------------------------------------------------------- running the implementation
def run_impl(ctx, erg, sources, workers=16):
    """sources: list of module texts; returns list of dict(rc, out (str|None), err)"""
    root = tempfile.mkdtemp(prefix="c18-", dir=CACHE)
    env = dict(os.environ)
    env.update(ctx.erg_env())

    def one(i):
        d = os.path.join(root, "m%d" % i)
        os.makedirs(d)
        p = os.path.join(d, "m.er")
        with open(p, "w", encoding="utf-8") as f:
            f.write(sources[i])
        try:
            r = subprocess.run([erg, "transpile", "--target", "json", p], cwd=d, env=env, stdout=subprocess.PIPE,
                               stderr=subprocess.PIPE, timeout=120)
            rc, err = r.returncode, r.stderr.decode("utf-8", "replace")[-3000:]
        except subprocess.TimeoutExpired:
            rc, err = -9, "timeout"
        out = None
        jp = os.path.join(d, "m.json")
        if os.path.exists(jp):
            raw = open(jp, "rb").read()
            try:
                out = raw.decode("utf-8")
            except UnicodeDecodeError:
                out = raw.decode("latin-1")
                err += " [output is not UTF-8]"
        return dict(rc=rc, out=out, err=re.sub(r"\x1b\[[0-9;]*m", "", err))
    try:
        with concurrent.futures.ThreadPoolExecutor(workers) as ex:
            return list(ex.map(one, range(len(sources))))
    finally:
        shutil.rmtree(root, ignore_errors=True)


def mutate_json(rng, t):
    ops = rng.randint(1, 2)
    s = list(t)
    pool = list('{}[],:"\\ \n\t-+.eE0123456789truefalsn') + ["\x00", "\x1f", "é", "\\u12", "\\ud83d\\ude00", "\\ud800",
                                                              "01", "1.", ".5", "1e", "nul", "NaN", "Infinity", "/"]
    for _ in range(ops):
        r = rng.random()
        pos = rng.randint(0, len(s))
        if r < 0.35 and s:
            del s[min(pos, len(s) - 1)]
        elif r < 0.7:
            s.insert(pos, rng.choice(pool))
        elif s:
            s[min(pos, len(s) - 1)] = rng.choice(pool)
    return "".join(s)


def spec_validation(ctx, model, texts):
    """extracted json_parse vs json.loads on texts; returns list of disagreements"""
    res = model.run([[1, t] for t in texts])
    bad = []
    for t, r in zip(texts, res):
        ok, py = oracle_loads(t)
        ctx.count("spec-validation:%s" % ("valid" if ok else "invalid"))
        if bool(r[0]) != ok:
            bad.append(dict(text=t, coq_accepts=bool(r[0]), python_accepts=ok))
        elif ok and not dup_keys(r[1]) and not same(jv_to_py(r[1], py), py):
            bad.append(dict(text=t, coq=str(jv_to_py(r[1], py))[:300], python=str(py)[:300]))
    return bad


def check_module(bs, impl, mout, cjudge):
    """-> (correspondence mismatch | None, judge failure | None)"""
    expected = module_py(bs)
    corr = jf = None
    produced = impl["rc"] == 0 and impl["out"] is not None
    m_text = sx_str(mout[1]) if mout[0] == 1 else None
    if produced:
        ok, got = oracle_loads(impl["out"])
        if not ok:
            jf = "output is not JSON (json.loads rejects it)"
        elif not same(expected, got):
            bad = [k for k in expected if k not in got or not same(expected[k], got[k])] + [k for k in got if k not in expected]
            jf = "json.loads(output) differs from the bound values at %s" % bad[:4]
        if jf is None and cjudge != 1 and not any(b["order_free"] for b in bs):
            corr = dict(what="extracted Coq judge rejects an output the json.loads oracle accepts")
    elif frontend_rejected(impl):
        return None, None           # not a module of the property's domain: the type checker refused it
    else:
        declinable = any(b["public"] and b["value"] is not None and nonfinite(b["value"]) for b in bs)
        if not declinable:
            jf = "no output for a module of constant bindings (rc=%s): %s" % (impl["rc"], impl["err"][-300:])
    if corr is None:
        if produced != (m_text is not None):
            corr = dict(what="model %s, implementation %s" % ("prints" if m_text is not None else "declines",
                                                              "prints" if produced else "declines"))
        elif produced and m_text != impl["out"]:
            if any(b["order_free"] for b in bs):
                ok1, a = oracle_loads(m_text)
                ok2, b = oracle_loads(impl["out"])
                if not (ok1 and ok2 and same(a, b)):
                    corr = dict(what="model text and output denote different objects", model=m_text, impl=impl["out"])
            else:
                i = next((i for i, (x, y) in enumerate(zip(m_text, impl["out"])) if x != y), min(len(m_text), len(impl["out"])))
                corr = dict(what="model text differs from output at offset %d" % i, model=m_text[max(0, i - 30):i + 30],
                            impl=impl["out"][max(0, i - 30):i + 30])
    return corr, jf


def frontend_rejected(impl):
    """no output because lexer/parser/type checker refused the module (the JSON generator's own refusal is NotConstExpr)"""
    return impl["rc"] not in (0, 101, -9) and impl["out"] is None and "Error" in impl["err"] and "NotConstExpr" not in impl["err"] \
        and "panicked" not in impl["err"]


def nonfinite(v):
    k = v[0]
    if k == "float":
        return v[1] != v[1] or v[1] in (float("inf"), float("-inf"))
    if k in ("list", "tuple"):
        return any(nonfinite(x) for x in v[1])
    if k == "record":
        return any(nonfinite(x) for _, x in v[1])
    if k == "dict":
        return any(nonfinite(x) for _, x in v[1])
    return False


def evaluate(ctx, erg, model, mods):
    """mods: list of binding lists. returns list of (corr, jf, impl, known)"""
    impl = run_impl(ctx, erg, [module_src(bs) for bs in mods])
    wires = [module_wire(bs) for bs in mods]
    mout = model.run([[0, w] for w in wires])
    info = model.run([[4, w] for w in wires])
    cj = model.run([[3, w, (im["out"] or "")] for w, im in zip(wires, impl)])
    out = []
    for bs, im, mo, inf, c in zip(mods, impl, mout, info, cj):
        corr, jf = check_module(bs, im, mo, c)
        if inf[0] != 1:
            corr = corr or dict(what="generated module violates the model's representation invariant wf_module")
        out.append((corr, jf, im, inf[3] == 1))
    return out


def binding_from_src(name, public, kind, py, src, tok):
    v = (kind, py, src, tok)
    return dict(public=public, name=name, src=src, mexpr=to_mexpr(v), py=to_py(v), order_free=False, value=v, kinds={kind})


WITNESS_FIXED = [
    # the probes of the design round: each was not JSON before the fix commits
    [binding_from_src("s", True, "str", 'q"x', '"q\\"x"', '"q"x"'), binding_from_src("b", True, "bool", True, "True", "True"),
     binding_from_src("n", True, "none", None, "None", "None")],
    [binding_from_src("a", True, "int", 1000, "1_000", "1_000"), binding_from_src("h", True, "int", 31, "0x1F", "0x1F")],
    [binding_from_src("a", True, "int", 1, "1", "1"), binding_from_src("b", False, "int", 2, "2", "2")],
]


def small_scope_strings():
    alpha = ['"', "\\", "a", "\n", "\0", "\x1f", "\x7f", "é", "\U0001F600", "{"]
    out = [""] + alpha + [a + b for a in alpha for b in alpha]
    return out


def run(ctx):
    ctx.cov["rule"] = ("modules of 1-14 bindings (80% public) whose initialisers are typed constant trees of depth<=3 over Nat "
                       "(decimal/underscore/hex/bin/oct), negative Int, Float, Str (quotes, backslashes, controls, Latin-1, BMP, "
                       "non-BMP; all escape forms), Bool, None, lists, tuples, records, string-keyed dicts, plus references to "
                       "bound constants and constant sums; non-trivial = distinct module with a public binding for which the "
                       "implementation produced a file")
    ctx.cov["trusted_base"] = ["Coq 8.16.1 kernel", "extraction (ExtrOcamlBasic only) + extract/driver.ml",
                               "Python json module (oracle) and repr(float) (float expansion fed to the model)",
                               "Rust core: Display for i32/u64/f64", "erg frontend: literal token -> lit.value (ValueObj::from_str)"]
    ctx.assumptions = ["initialisers are constants of the listed kinds (function definitions, unbound names and non-string "
                       "dict keys are outside the property)",
                       "non-finite float constants are declined with a NotConstExpr error (no JSON form)"]
    proof = ctx.coq(["Emit/Props_C18.v"])
    erg = ctx.erg_bin()
    model = ctx.model("Emit")

    mods = []
    corpus = os.path.join(VERIF, "corpus", "C18")
    if os.path.isdir(corpus):
        for f in sorted(os.listdir(corpus)):
            c = json.load(open(os.path.join(corpus, f)))
            mods.append([binding_from_src(*b) for b in c["bindings"]])
    mods += WITNESS_FIXED
    n = ctx.scale(160, 4000)
    for _ in range(n):
        mods.append(gen_module(ctx.rng, ctx.rng.choice([1, 2, 4, 8, 14])))
    if ctx.thorough:
        ss = small_scope_strings()
        ctx.cov["exhaustive_small_scope"] = "all %d strings of length<=2 over 10 characters (quote, backslash, NUL, 0x1f, 0x7f, newline, e-acute, U+1F600, brace, a)" % len(ss)
        for i in range(0, len(ss), 12):
            mods.append([binding_from_src("s%d" % j, True, "str", s, str_src(ctx.rng, s), '"' + s + '"')
                         for j, s in enumerate(ss[i:i + 12])])
    ctx.log("%d modules generated" % len(mods))
    results = evaluate(ctx, erg, model, mods)
    ctx.log("implementation and model evaluated")

    n_corr = 0
    first_corr = None
    fails = []
    known_hit = False
    outputs = []
    corr_kinds = {}
    for bs, (corr, jf, im, known) in zip(mods, results):
        src = module_src(bs)
        for b in bs:
            for k in b["kinds"]:
                ctx.count(k)
            ctx.count("public" if b["public"] else "private")
        produced = im["rc"] == 0 and im["out"] is not None
        ctx.count("output produced" if produced else "rejected by the frontend (generator artefact)" if frontend_rejected(im) else "declined")
        ctx.case(src, nontrivial=produced and any(b["public"] for b in bs), sample={"module": src[:400], "output": (im["out"] or "")[:400]})
        if produced:
            outputs.append(im["out"])
        if known and (jf or corr):
            known_hit = True        # classified by the extracted predicate Known_C18
            continue
        if jf:
            fails.append((bs, jf, im))
        elif corr:
            n_corr += 1
            first_corr = first_corr or {"module": src, "detail": corr}
            for b in bs:
                for k in b["kinds"]:
                    corr_kinds[k] = corr_kinds.get(k, 0) + 1

    # ---- the correspondence broke but every output still satisfied the judge: search around the disagreeing value kinds
    if n_corr and not fails:
        scal = [k for k in ("float", "int", "str", "bool", "none") if k in corr_kinds]
        # scalar kinds over-represented in the disagreeing modules first, then all of them
        batches = [[k] for k in sorted(scal, key=lambda k: -corr_kinds[k])[:3]] + [scal or None]
        for leaves in batches:
            lv = None if leaves is None else [("nat" if k == "int" else k) for k in leaves] + (["int"] if "int" in leaves else [])
            extra = [gen_module(ctx.rng, ctx.rng.choice([4, 8, 14]), lv) for _ in range(ctx.scale(60, 600))]
            ctx.log("failing-input search: %d modules biased to %s" % (len(extra), leaves))
            for bs, (corr, jf, im, known) in zip(extra, evaluate(ctx, erg, model, extra)):
                ctx.count("search batch module")
                ctx.case(module_src(bs), nontrivial=im["rc"] == 0 and im["out"] is not None, sample=None)
                if jf and not known:
                    fails.append((bs, jf, im))
            if fails:
                break

    # ---- the specification itself against the oracle
    texts = list(outputs[:ctx.scale(150, 1500)])
    base = [t for t in outputs if len(t) < 400] or ['{"a": [1, 2.5e3, "x\\n", true, null]}']
    for _ in range(ctx.scale(1500, 30000)):
        texts.append(mutate_json(ctx.rng, ctx.rng.choice(base)))
    texts += ['{"a":1,"a":2}', "[1e400]", '"\\ud83d\\ude00"', '"\\ud800"', "-0", "[-0.0]", "1E+2", " \t\r\n[ ] ", "01", "1.", "[1,]",
              '{"a" 1}', "", "nul", "[", '"\x7f"', '"\x1f"', "[1 2]", '{"a":1,}', "- 1", "+1", "0x10", "'a'", "1_000", "True", "None"]
    spec_bad = spec_validation(ctx, model, texts)
    ctx.log("specification validated against json.loads on %d texts" % len(texts))
    ctx.cov["spec_validation_texts"] = len(texts)

    # ---- known findings: replay the recorded witnesses
    for k in ctx.known():
        w = k.get("witness", {})
        if "bindings" in w:
            bs = [binding_from_src(*b) for b in w["bindings"]]
            corr, jf, im, known = evaluate(ctx, erg, model, [bs])[0]
            if jf and known:
                ctx.known_finding(k)
            elif jf:
                fails.append((bs, jf, im))
            else:
                ctx.notes.append("stale-known-finding %s: witness no longer reproduces" % k.get("id"))
                ctx.log("NOTE stale-known-finding", k.get("id"))

    # ---- verdict
    for bs, jf, im in fails[:3]:
        def failing(sub, cat=jf[:12]):
            c, j, _, kn = evaluate(ctx, erg, model, [sub])[0]
            return j is not None and not kn and j[:12] == cat
        small = shrink_list(bs, failing, budget=40)
        c, j, im2, _ = evaluate(ctx, erg, model, [small])[0]
        ctx.violation("failing-input", "JSON target: %s" % (j or jf),
                      case={"source": module_src(small), "expected": module_py(small),
                            "bindings": [[b["name"], b["public"], b["value"][0], b["py"], b["src"], b["value"][3]]
                                         for b in small if b["value"] is not None and b["value"][0] in ("int", "float", "str", "bool", "none")]},
                      impl={"rc": im2["rc"], "output": im2["out"], "stderr": im2["err"][-400:]}, judge=j or jf)
    if not fails and (n_corr or not proof.ok or spec_bad):
        what = []
        if not proof.ok:
            what.append("theorem(s) no longer check: " + proof.summary())
        if n_corr:
            what.append("%d modules on which the model's text and the implementation's output differ while json.loads still "
                        "yields the bound values" % n_corr)
        if spec_bad:
            what.append("the Coq JSON grammar and Python's json disagree on %d texts" % len(spec_bad))
        ctx.violation("broken-correspondence" if (n_corr or spec_bad) else "broken-theorem", "; ".join(what),
                      case=first_corr or (spec_bad[0] if spec_bad else None), theorem=proof.summary() or None, no_input=True)


def replay(ctx, path):
    r = json.load(open(path))
    erg = ctx.erg_bin()
    model = ctx.model("Emit")
    src = r["case"]["source"]
    im = run_impl(ctx, erg, [src])[0]
    print("source:\n" + src)
    print("rc:", im["rc"], "\noutput:\n", im["out"], "\nstderr:", im["err"][-300:])
    expected = r["case"].get("expected")
    ok, got = oracle_loads(im["out"]) if im["out"] is not None else (False, None)
    print("json.loads accepts:", ok, "value:", got, "\nexpected:", expected)
    if not ok or not same(expected, got):
        ctx.violation("failing-input", "JSON target: output %s" % ("is not JSON" if not ok else "differs from the bound values"),
                      case=r["case"], impl=im, judge="json.loads")
