"""C30 — language-server rename preserves program meaning.

proof:          coq/Els/Props_C30.v over coq/Els/Rename.v (a core with nested scopes / shadowing, closures, default
                arguments, string literals): [occ b] = the binder and every use that resolves to it; renaming exactly
                [occ b] to a fresh name leaves the binding structure unchanged (hence the core's evaluation), and no
                use under the old name refers to the binder any more
correspondence: for every identifier occurrence of every binding of generated programs textDocument/rename is
                requested from the real server (els::Server, harness `ergv-els`); the ranges of the returned
                WorkspaceEdit must be the source ranges of the model's [occ b]; the core's evaluator must print what
                `erg run` prints
judge:          the three observations the property names: after applying the returned edits the program type-checks
                iff the original did (`erg check`), prints the same (`erg run`), and no use written with the old name
                still refers to the binding (extracted SpecRename.judge_rename on the edited program)
"""
import re
import shutil
import tempfile
import threading
from concurrent.futures import ThreadPoolExecutor
from lib.vplib import *

REGISTRY = dict(
    category="proof",
    text="proof (partial): Coq model of binder resolution and renaming on a core of Erg (coq/Els/Rename.v: nested scopes "
         "and shadowing, closures, default arguments, string literals) with theorems that renaming exactly the occurrence "
         "set of a binder to a fresh name preserves the binding structure and the core's evaluation and leaves no "
         "reference under the old name; tied to els by requesting textDocument/rename at every occurrence of every "
         "binding of generated programs and comparing the edited ranges with the model's occurrence set; judged directly "
         "(apply the edits; `erg check`, `erg run`, stale references). Only sampled: that the server's index of "
         "references equals the model's resolution, and that erg agrees with the core's evaluator; cross-module rename, "
         "attributes, classes and patterns are outside the core.",
    note="Trusted: Coq kernel, extraction (ExtrOcamlBasic) + generic OCaml driver, harness/els, the python pretty-printer "
         "of the core (positions -> source ranges), the erg CLI as the observer of checking and running.",
    technique="Coq proof over hand model (alpha-renaming on a core calculus) + correspondence of the server's edit set "
              "with the model's occurrence set at every rename position + direct judge (check / run / stale references)",
    design="DESIGN.md §4 C30")

NAMES = ["x", "y", "z", "a", "b", "c", "k", "w", "n", "v", "p", "q", "\u00e9", "\u6570", "caf\u00e9"]
# words for string literals: Latin-1, arrows, CJK, a combining mark, an astral (two UTF-16 units) emoji
WORDS = ["is", "and", "caf\u00e9", "\u2192", "\u65e5\u672c\u8a9e", "e\u0301", "\U0001F600", "na\u00efve \u00df"]
FNAMES = ["f", "g", "h", "u", "r"]
ALL = NAMES + FNAMES + ["s", "t", "m", "d", "e", "i", "j"]
NAME_ID = {}


def u16(t):
    """length in UTF-16 code units (what LSP positions count)"""
    return len(t.encode("utf-16-le")) // 2


def nid(name):
    return NAME_ID.setdefault(name, len(NAME_ID) + 1)


# ------------------------------------------------------------------ generation: core AST + Erg text + positions
class Gen:
    """builds a program of the core (coq/Els/Rename.v) together with its Erg source; every identifier occurrence gets a
    position number and its source range"""

    def __init__(self, rng):
        self.rng = rng
        self.lines = [""]
        self.pos = {}          # position id -> (line, col, name)
        self.next = 10
        self.binders = []      # (pos, name)
        self.feat = set()
        self.used = []         # every name emitted so far, in order

    # -- text
    def emit(self, s):
        self.lines[-1] += s

    def newline(self):
        self.lines.append("")

    def ident(self, name):
        p = self.next
        self.next += 1
        self.pos[p] = (len(self.lines) - 1, u16(self.lines[-1]), name, len(self.lines[-1]))
        self.emit(name)
        self.used.append(name)
        return p

    # -- expressions.  scope: list of (name, type) innermost first; types I S F1 F2 HF
    def visible(self, scope, ty):
        seen, out = set(), []
        for n, t in scope:
            if n in seen:
                continue
            seen.add(n)
            if t == ty:
                out.append(n)
        return out

    def expr_int(self, scope, depth, paren=False):
        r = self.rng
        ints, f1, f2, hf = (self.visible(scope, t) for t in ("I", "F1", "F2", "HF"))
        kinds = ["lit"] + ["var"] * (3 if ints else 0)
        if depth > 0:
            kinds += ["add", "add"] + ["call1"] * (2 if f1 else 0) + ["call2", "calld"] * (1 if f2 else 0) + ["callh"] * (1 if hf else 0)
        k = r.choice(kinds)
        if k == "lit":
            n = r.randint(0, 9)
            self.emit(str(n))
            return [1, n]
        if k == "var":
            x = r.choice(ints)
            return [0, self.ident(x), nid(x)]
        if k == "add":
            if paren:
                self.emit("(")
            a = self.expr_int(scope, depth - 1)
            self.emit(" + ")
            b = self.expr_int(scope, depth - 1, paren=True)
            if paren:
                self.emit(")")
            return [3, a, b]
        if k == "call1":
            f = r.choice(f1)
            fe = [0, self.ident(f), nid(f)]
            self.emit("(")
            a = self.expr_int(scope, depth - 1)
            self.emit(")")
            return [4, fe, a]
        if k in ("call2", "calld"):
            f = r.choice(f2)
            fe = [0, self.ident(f), nid(f)]
            self.emit("(")
            a = self.expr_int(scope, depth - 1)
            if k == "calld":
                self.emit(")")
                return [4, fe, a]
            self.emit(", ")
            b = self.expr_int(scope, depth - 1)
            self.emit(")")
            return [5, fe, a, b]
        h = r.choice(hf)
        he = [0, self.ident(h), nid(h)]
        self.emit("(")
        a = self.expr_int(scope, depth - 1)
        self.emit(")(")
        b = self.expr_int(scope, depth - 1)
        self.emit(")")
        return [4, [4, he, a], b]

    def expr_str(self, scope, must=None):
        """a string literal that mentions identifiers in scope (their text must never be edited) between non-ASCII words"""
        names = [n for n, _ in scope[:4]] or ["x"]
        words = [self.rng.choice(names + WORDS) for _ in range(self.rng.randint(1, 3))]
        if must:
            words.insert(self.rng.randint(0, len(words)), must)
        s = " ".join(words)
        self.emit('"%s"' % s)
        self.feat.add("string literal with identifier text")
        if any(ord(c) > 127 for c in s):
            self.feat.add("string literal with non-ASCII text")
        if any(ord(c) > 0xFFFF for c in s):
            self.feat.add("string literal with an astral character")
        return [2, [ord(c) for c in s]]

    def pick_name(self, scope, local, pool, shadow_p=0.45, avoid=()):
        """a name for a new binder of the current block: not one the block already defines, and not an outer name the
        block has already used (erg compiles to Python scoping: a name assigned in a function is local to all of it)"""
        local = set(local) | set(avoid)
        outer = [n for n, _ in scope if n not in local and n in pool]
        if outer and self.rng.random() < shadow_p:
            self.feat.add("shadowing")
            return self.rng.choice(outer)
        free = [n for n in pool if n not in local]
        if not free:
            free = [n + str(i) for n in pool for i in range(2, 6) if n + str(i) not in local]
        return self.rng.choice(free)

    # -- blocks
    def block(self, scope, level, indent, nstmts, top=False, local0=()):
        """-> sx block; emits lines at `indent`. scope: visible names; local names may not be redefined (Erg)"""
        r = self.rng
        local = set(local0)
        stmts = []      # (kind, payload) in order, turned into nested sx at the end
        scope = list(scope)
        start = len(self.used)
        for i in range(nstmts):
            used = set(self.used[start:]) - local
            # erg restrictions the generator respects: print! only outside functions (functions are pure); a function
            # defined inside a function has no local definitions (erg's code for a nested function that has locals and
            # captures an outer name crashes the interpreter: not a rename matter)
            kinds = ["defint", "defint"]
            if level < 2:
                kinds += ["fun1", "fun2"]
            if level < 1:
                kinds += ["hf", "defstr", "defstr", "strafter", "print", "print", "printstr", "tower"]
            k = r.choice(kinds)
            self.emit(" " * indent)
            if k == "defint":
                x = self.pick_name(scope, local, NAMES, avoid=used)
                p = self.ident(x)
                self.emit(" = ")
                e = self.expr_int([sc for sc in scope if sc[0] != x], 2)
                stmts.append(("def", p, x, e))
                self.binders.append((p, x))
                local.add(x)
                scope.insert(0, (x, "I"))
            elif k == "defstr":
                x = self.pick_name(scope, local, ["s", "t", "m", "d"], shadow_p=0.0, avoid=used)
                p = self.ident(x)
                self.emit(" = ")
                ints = self.visible(scope, "I")
                same_line = top and ints and r.random() < 0.8
                z = r.choice(ints) if same_line else None
                e = self.expr_str(scope, must=z)
                stmts.append(("def", p, x, e))
                self.binders.append((p, x))
                local.add(x)
                scope.insert(0, (x, "S"))
                if same_line:
                    # a second definition on the same line that uses the name the string mentions
                    self.emit("; ")
                    y = self.pick_name(scope, local, NAMES, shadow_p=0.0, avoid=used | {z})
                    p2 = self.ident(y)
                    self.emit(" = ")
                    e2 = [3, [0, self.ident(z), nid(z)], None]
                    self.emit(" + ")
                    e2[2] = self.expr_int([sc for sc in scope if sc[0] != y], 1, paren=True)
                    stmts.append(("def", p2, y, e2))
                    self.binders.append((p2, y))
                    local.add(y)
                    scope.insert(0, (y, "I"))
                    self.feat.add("use on the same line as a string literal that contains the name")
            elif k == "strafter":
                # a definition that uses a name, then on the same line a string literal that contains the name
                ints = self.visible(scope, "I")
                if not ints:
                    self.lines[-1] = self.lines[-1][:len(self.lines[-1]) - indent]
                    continue
                z = r.choice(ints)
                y = self.pick_name(scope, local, NAMES, shadow_p=0.0, avoid=used | {z})
                p2 = self.ident(y)
                self.emit(" = ")
                e2 = [3, [0, self.ident(z), nid(z)], None]
                self.emit(" + ")
                e2[2] = self.expr_int([sc for sc in scope if sc[0] != y], 1, paren=True)
                stmts.append(("def", p2, y, e2))
                self.binders.append((p2, y))
                local.add(y)
                scope.insert(0, (y, "I"))
                self.emit("; ")
                x = self.pick_name(scope, local, ["s", "t", "m", "d"], shadow_p=0.0, avoid=used)
                p = self.ident(x)
                self.emit(" = ")
                e = self.expr_str(scope, must=z)
                stmts.append(("def", p, x, e))
                self.binders.append((p, x))
                local.add(x)
                scope.insert(0, (x, "S"))
                self.feat.add("string literal after a use on the same line")
            elif k == "printstr":
                # print! "..." + s  /  print! s + "...": a literal before / after a reference in one expression
                strs = self.visible(scope, "S")
                if not strs:
                    self.lines[-1] = self.lines[-1][:len(self.lines[-1]) - indent]
                    continue
                x = r.choice(strs)
                self.emit("print! ")
                if r.random() < 0.6:
                    a = self.expr_str(scope, must=x)
                    self.emit(" + ")
                    e = [3, a, [0, self.ident(x), nid(x)]]
                    self.feat.add("reference after a string literal in one expression")
                else:
                    v = [0, self.ident(x), nid(x)]
                    self.emit(" + ")
                    e = [3, v, self.expr_str(scope, must=x)]
                stmts.append(("print", e))
            elif k == "tower":
                # g(n) = (h(n) = (k(n) = n + c; k(n) + n); h(n) + n): the same name bound at every level
                n0 = self.pick_name(scope, local, NAMES, shadow_p=0.7, avoid=used)
                fs = []
                lvl = indent
                stack = []
                depth_t = r.randint(2, 3)
                fl = set(local)
                for d_ in range(depth_t):
                    fn = self.pick_name(scope if d_ == 0 else [], fl | set(fs) | {n0}, FNAMES + ["i", "j", "e"], shadow_p=0.0, avoid=used if d_ == 0 else ())
                    if d_ > 0:
                        self.emit(" " * lvl)
                    pf = self.ident(fn)
                    self.binders.append((pf, fn))
                    self.emit("(")
                    pp = self.ident(n0)
                    self.binders.append((pp, n0))
                    self.emit(": Int) =")
                    fs.append(fn)
                    stack.append((pf, fn, pp))
                    lvl += 4
                    if d_ < depth_t - 1:
                        self.newline()
                # innermost body on the same line
                self.emit(" ")
                body = [0, [3, [0, self.ident(n0), nid(n0)], [1, r.randint(0, 9)]]]
                self.emit(" + %d" % body[1][2][1])
                self.newline()
                # unwind: each enclosing level returns inner(n) + n
                for d_ in range(depth_t - 2, -1, -1):
                    lvl -= 4
                    self.emit(" " * lvl)
                    pf_in, fn_in, pp_in = stack[d_ + 1]
                    call = [4, [0, self.ident(fn_in), nid(fn_in)], None]
                    self.emit("(")
                    call[2] = [0, self.ident(n0), nid(n0)]
                    self.emit(") + ")
                    ret = [0, [3, call, [0, self.ident(n0), nid(n0)]]]
                    self.newline()
                    body = [2, pf_in, nid(fn_in), pp_in, nid(n0), [], body, ret]
                pf0, fn0, pp0 = stack[0]
                stmts.append(("fun", pf0, fn0, pp0, n0, [], body))
                local.add(fn0)
                scope.insert(0, (fn0, "F1"))
                self.feat.add("the same name bound as parameter at %d nested levels" % depth_t)
                continue
            elif k == "print":
                self.emit("print! ")
                strs = self.visible(scope, "S")
                if strs and r.random() < 0.3:
                    x = r.choice(strs)
                    e = [0, self.ident(x), nid(x)]
                else:
                    e = self.expr_int(scope, 2)
                stmts.append(("print", e))
            elif k in ("fun1", "fun2"):
                f = self.pick_name(scope, local, FNAMES, shadow_p=0.2, avoid=used)
                p = self.ident(f)
                self.binders.append((p, f))
                self.emit("(")
                x1 = self.pick_name(scope, {f}, NAMES)
                p1 = self.ident(x1)
                self.emit(": Int")
                self.binders.append((p1, x1))
                d = []
                if x1 in [m for m, _ in scope]:
                    self.feat.add("parameter shadows an outer name")
                inner = [(x1, "I"), (f, "X")] + scope     # the function itself is in scope, but is not called: no recursion
                if k == "fun2":
                    self.emit(", ")
                    x2 = self.pick_name(scope, {f, x1}, NAMES)
                    p2 = self.ident(x2)
                    self.binders.append((p2, x2))
                    self.emit(": Int := ")
                    # the default value: an expression of the enclosing scope, in which erg already binds the function's
                    # own name (to a not yet assigned local: using it there fails at run time, so it is not used)
                    de = self.expr_int([sc for sc in scope if sc[0] != f], 1)
                    d = [p2, nid(x2), de]
                    inner = [(x2, "I")] + inner
                    self.feat.add("default argument")
                    if has_var(de):
                        self.feat.add("default argument refers to an outer name")
                self.emit(") =")
                self.newline()
                body = self.block(inner, level + 1, indent + 4, r.randint(0, 2) if level == 0 else 0,
                                  local0={f, x1} | ({d and x2} if d else set()))
                local.add(f)
                scope.insert(0, (f, "F1" if k == "fun1" else "F2"))
                stmts.append(("fun", p, f, p1, x1, d, body))
                continue     # block() ended the line
            else:
                # h(a) = (k(b) = a + b + <outer>; k): returns a closure
                h = self.pick_name(scope, local, FNAMES, shadow_p=0.0, avoid=used)
                p = self.ident(h)
                self.binders.append((p, h))
                self.emit("(")
                a = self.pick_name(scope, {h}, NAMES)
                pa = self.ident(a)
                self.binders.append((pa, a))
                self.emit(": Int) =")
                self.newline()
                self.emit(" " * (indent + 4))
                kf = self.pick_name([(a, "I")] + scope, {h, a}, ["k", "j", "i", "e"], shadow_p=0.0)
                pk = self.ident(kf)
                self.binders.append((pk, kf))
                self.emit("(")
                b = self.pick_name([(a, "I")] + scope, {h, a, kf}, NAMES)
                pb = self.ident(b)
                self.binders.append((pb, b))
                self.emit(": Int) = ")
                inner2 = [(b, "I"), (kf, "X"), (a, "I"), (h, "X")] + scope
                e = [3, [0, self.ident(a), nid(a)], None]
                self.emit(" + ")
                e[2] = self.expr_int(inner2, 1, paren=True)
                self.newline()
                self.emit(" " * (indent + 4))
                ret = [0, self.ident(kf), nid(kf)]
                self.newline()
                body = [2, pk, nid(kf), pb, nid(b), [], [0, e], [0, ret]]
                stmts.append(("fun", p, h, pa, a, [], body))
                local.add(h)
                scope.insert(0, (h, "HF"))
                self.feat.add("closure capturing outer names")
                continue
            self.newline()
        # the value of the block
        if top:
            tail = [0, [1, 0]]
        else:
            self.emit(" " * indent)
            tail = [0, self.expr_int(scope, 2)]
            self.newline()
        for st in reversed(stmts):
            if st[0] == "def":
                tail = [1, st[1], nid(st[2]), st[3], tail]
            elif st[0] == "print":
                tail = [3, st[1], tail]
            else:
                tail = [2, st[1], nid(st[2]), st[3], nid(st[4]), st[5], st[6], tail]
        return tail

    def program(self):
        t = self.block([], 0, 0, self.rng.randint(3, 7), top=True)
        text = "\n".join(self.lines)
        if not text.endswith("\n"):
            text += "\n"
        return t, text


def has_var(e):
    return e[0] == 0 or (e[0] in (3, 4, 5) and any(has_var(x) for x in e[1:]))


def gen_program(rng):
    g = Gen(rng)
    t, text = g.program()
    return {"ast": t, "text": text, "pos": {str(p): list(v) for p, v in g.pos.items()}, "binders": g.binders,
            "features": sorted(g.feat)}


# ------------------------------------------------------------------ editing
def apply_edits(text, edits):
    """edits: (sl, sc, el, ec, new) with UTF-16 columns (LSP); applied back to front"""
    lines = text.split("\n")

    def off(l, c):
        line = lines[l] if l < len(lines) else ""
        k = 0
        while k < len(line) and u16(line[:k]) < c:
            k += 1
        return sum(len(x) + 1 for x in lines[:l]) + k
    spans = sorted(((off(e[0], e[1]), off(e[2], e[3]), e[4]) for e in edits), reverse=True)
    for a, b, new in spans:
        text = text[:a] + new + text[b:]
    return text


def model_value(v):
    if v[0] == 0:
        return str(v[1])
    if v[0] == 1:
        return sx_str(v[1])
    return "<closure>" if v[0] == 2 else "<error>"


ANSI = re.compile(r"\x1b\[[0-9;]*m")


def clean_output(out):
    """what the program printed: stdout without the compiler's warning blocks (they start with `Warning[#n]` and end
    with the line `SomeWarning: ...`) and without empty lines (the generated programs print no empty line)"""
    lines, skip = [], False
    for l in ANSI.sub("", out).split("\n"):
        if re.match(r"^Warning\[#\d+\]", l):
            skip = True
            continue
        if skip:
            if re.match(r"^[A-Za-z]*Warning: ", l):
                skip = False
            continue
        if l.strip():
            lines.append(l)
    return lines


class Runner:
    def __init__(self, ctx):
        self.ctx = ctx
        self.ws = tempfile.mkdtemp(prefix="ergv-els-c30-")
        self.h = Harness(ctx, "els", env={"ERGV_ELS_WS": self.ws})
        self.model = ctx.model("Els")
        self.erg = ctx.erg_bin()
        self.env = ctx.erg_env()
        self.serial = 0
        self.cache = {}

    def close(self):
        shutil.rmtree(self.ws, ignore_errors=True)

    def erg_run(self, text):
        """-> (kind, printed lines): kind 'ok' | 'compile-error' | 'runtime-error' (warnings are not output)"""
        if text in self.cache:
            return self.cache[text]
        d = tempfile.mkdtemp(prefix="run", dir=self.ws)
        f = os.path.join(d, "prog.er")
        open(f, "w").write(text)
        p = sh([self.erg, "run", f], env=self.env, timeout=300, cwd=d)
        if p.returncode == 0:
            r = ("ok", clean_output(p.stdout))
        else:
            q = sh([self.erg, "check", f], env=self.env, timeout=300, cwd=d)
            r = ("compile-error" if q.returncode != 0 else "runtime-error", clean_output(p.stdout + p.stderr)[-4:])
        shutil.rmtree(d, ignore_errors=True)
        self.cache[text] = r
        return r

    def rename_all(self, progs, new_name, workers=6):
        """-> per program: list of (pos id, status, edits) for every identifier occurrence"""
        cases = []
        for prog in progs:
            self.serial += 1
            ps = sorted(int(p) for p in prog["pos"])
            cases.append([3, self.serial, prog["text"], new_name,
                          [[prog["pos"][str(p)][0], prog["pos"][str(p)][1]] for p in ps]])
        parts = [list(range(w, len(cases), workers)) for w in range(workers)]
        res, errs = {}, []

        def work(w):
            try:
                if parts[w]:
                    out = self.h.run([cases[i] for i in parts[w]], timeout=3000)
                    for i, r in zip(parts[w], out):
                        res[i] = r
            except Exception as e:  # noqa
                errs.append(e)
        ts = [threading.Thread(target=work, args=(w,)) for w in range(workers)]
        for t in ts:
            t.start()
        for t in ts:
            t.join()
        if errs:
            raise FrameworkError("harness run failed: %s" % errs[0])
        out = []
        for i, prog in enumerate(progs):
            r = res[i]
            ps = sorted(int(p) for p in prog["pos"])
            if not isinstance(r, list) or not r or r[0] != 0 or len(r) != len(ps) + 1:
                out.append(None if not (isinstance(r, list) and r and r[0] in (0, 1)) else
                           [(p, x[0], [(e[0], e[1], e[2], e[3], e[4], sx_str(e[5])) for e in x[1]]) for p, x in zip(ps, r[1:])])
                continue
            out.append([(p, x[0], [(e[0], e[1], e[2], e[3], e[4], sx_str(e[5])) for e in x[1]]) for p, x in zip(ps, r[1:])])
        return out


def evaluate(ctx, runner, progs, new_name="zq9", budget=None):
    """-> per program dict(model, corr [..], fails [..]). budget: how many edit sets that EQUAL the model's occurrence
    set are also applied and run through erg per program (None: all); sets that differ are always judged"""
    y = nid(new_name)
    minfo = runner.model.run([[2, p["ast"], y] for p in progs])
    mrun = runner.model.run([[3, p["ast"], 60] for p in progs])
    t1 = time.time()
    impl = runner.rename_all(progs, new_name)
    ctx.log("rename requests for %d programs: %.1fs" % (len(progs), time.time() - t1))
    t1 = time.time()
    # run the originals
    with ThreadPoolExecutor(max_workers=8) as ex:
        orig = list(ex.map(lambda p: runner.erg_run(p["text"]), progs))
    ctx.log("erg run of %d originals: %.1fs" % (len(progs), time.time() - t1))
    results = []
    jobs = []      # (result index, binder, pos, edited text, S)
    for i, prog in enumerate(progs):
        res = {"corr": [], "fails": [], "known": [], "requests": 0, "edit_sets": 0, "orig": orig[i], "hyp_ok": minfo[i][0] == 1 and minfo[i][1] == 1}
        results.append(res)
        pos = {int(k): v for k, v in prog["pos"].items()}
        rng_of = {p: (v[0], v[1], v[0], v[1] + u16(v[2])) for p, v in pos.items()}
        by_range = {v: k for k, v in rng_of.items()}
        if not res["hyp_ok"]:
            res["corr"].append({"why": "generator: positions not distinct or the new name occurs in the program"})
            continue
        # evaluator tie
        want = [model_value(v) for v in mrun[i][0]]
        if orig[i][0] == "ok" and orig[i][1] != want:
            res["corr"].append({"why": "the core's evaluator and `erg run` print different values", "model": want, "erg": orig[i][1]})
        # (an original that erg does not compile or run is still renamed and judged on the equality of that status)
        if impl[i] is None:
            res["fails"].append({"why": "the language server died or failed to open the program", "position": None})
            continue
        occ_of = {}
        for b, x, occ, agrees in minfo[i][2]:
            for p in occ:
                occ_of[p] = (b, x, occ)
            if agrees != 1:
                res["corr"].append({"why": "model: agrees(occ) is false", "binder": b})
        seen_sets = {}
        bs = sorted(set(v[0] for v in occ_of.values()))
        chosen = None if budget is None else set(ctx.rng.sample(bs, min(budget, len(bs))))
        for p, status, edits in impl[i]:
            res["requests"] += 1
            if p not in occ_of:
                # a use of a name that is not bound in the program (print!): nothing to rename
                continue
            b, x, occ = occ_of[p]
            want_ranges = sorted(rng_of[q] for q in occ)
            got_ranges = sorted((e[1], e[2], e[3], e[4]) for e in edits if e[0] == 1)
            foreign = [e for e in edits if e[0] != 1]
            bad_text = [e for e in edits if e[5] != new_name]
            where = {"position": p, "line_col": pos[p][:2], "name": pos[p][2], "binder": b}
            if status == -999:
                res["fails"].append(dict(where, why="the rename handler panicked"))
                continue
            if status == 1 and not edits:
                # known finding C30-position-after-non-ascii: the token stream's end columns count bytes, so a position
                # behind a literal with multi-byte characters is taken to lie inside that literal
                tl = prog["text"].split("\n")[pos[p][0]]
                k = next(k for k in range(len(tl) + 1) if u16(tl[:k]) >= pos[p][1])
                if any(ord(ch) > 127 for ch in tl[:k]):
                    res["known"].append(dict(where, id="C30-position-after-non-ascii"))
                    continue
            differs = got_ranges != want_ranges or bool(foreign) or bool(bad_text) or status != 1
            if differs and status == 1 and not foreign and not bad_text:
                # the other face of C30-position-after-non-ascii: the symbol BEFORE the literal is renamed instead
                tl = prog["text"].split("\n")[pos[p][0]]
                k = next(k for k in range(len(tl) + 1) if u16(tl[:k]) >= pos[p][1])
                others = [sorted(rng_of[q] for q in o[2]) for o in {v[0]: v for v in occ_of.values()}.values() if o[0] != b]
                if any(ord(ch) > 127 for ch in tl[:k]) and got_ranges in others:
                    res["known"].append(dict(where, id="C30-position-after-non-ascii", renamed_instead=got_ranges))
                    continue
            if differs and status == 1 and not foreign and not bad_text:
                # known finding C30-astral-columns: the edit ranges count characters, LSP counts UTF-16 units; they
                # differ after a character outside the BMP on the same line
                tl = prog["text"].split("\n")
                cc = lambda q: next(k for k in range(len(tl[pos[q][0]]) + 1) if u16(tl[pos[q][0]][:k]) >= pos[q][1])
                chars = sorted((pos[q][0], cc(q), pos[q][0], cc(q) + len(pos[q][2])) for q in occ)
                if got_ranges == chars:
                    res["known"].append(dict(where, id="C30-astral-columns", impl=got_ranges, utf16=want_ranges))
                    continue
            if differs:
                res["corr"].append(dict(where, why="edit set differs from the model's occurrence set", status=status,
                                        impl=got_ranges, model=want_ranges, foreign=foreign))
            # judge, once per distinct edit set of a binder
            key = (b, tuple(got_ranges), status)
            if key in seen_sets:
                if seen_sets[key] is not None:
                    res["fails"].append(dict(where, **seen_sets[key]))
                continue
            seen_sets[key] = None
            if not differs and chosen is not None and b not in chosen:
                continue
            res["edit_sets"] += 1
            if status != 1 or not edits:
                seen_sets[key] = {"why": "no workspace edit was returned for a user-defined binding (status %d)" % status}
                res["fails"].append(dict(where, **seen_sets[key]))
                continue
            if foreign or bad_text:
                seen_sets[key] = {"why": "the workspace edit touches another file or inserts a different text", "edits": edits}
                res["fails"].append(dict(where, **seen_sets[key]))
                continue
            S = [by_range.get(r) for r in got_ranges]
            if any(s is None for s in S):
                seen_sets[key] = {"why": "an edited range is not an identifier occurrence (e.g. inside a string literal)",
                                  "ranges": [r for r in got_ranges if r not in by_range]}
                res["fails"].append(dict(where, **seen_sets[key]))
                continue
            new_text = apply_edits(prog["text"], [(e[1], e[2], e[3], e[4], e[5]) for e in edits])
            jobs.append((i, key, where, new_text, S, b, x))
    # judge: model on the edited AST + erg on the edited text
    jm = runner.model.run([[4, progs[j[0]]["ast"], j[4], y, j[5], j[6]] for j in jobs]) if jobs else []   # j[6]: the name's number, from the model
    t1 = time.time()
    with ThreadPoolExecutor(max_workers=8) as ex:
        runs = list(ex.map(lambda j: runner.erg_run(j[3]), jobs))
    ctx.log("erg run of %d renamed programs: %.1fs" % (len(jobs), time.time() - t1))
    for j, mv, rr in zip(jobs, jm, runs):
        i, key, where, new_text, S, b, x = j
        res = results[i]
        o = res["orig"]
        why = None
        if (o[0] == "compile-error") != (rr[0] == "compile-error"):
            why = "the renamed program %s but the original %s" % (
                "does not type-check" if rr[0] == "compile-error" else "type-checks",
                "did" if rr[0] == "compile-error" else "did not")
        elif o[0] == "ok" and rr != o:
            why = "the renamed program behaves differently when run"
        elif mv[2]:
            why = "a use written with the old name still refers to the binding"
        elif mv[0] != 1:
            why = "the binding structure changed (a use now resolves to a different binder)"
        if why:
            f = {"why": why, "edited_positions": S, "renamed_program": new_text, "erg_original": o, "erg_renamed": rr,
                 "judge": {"verdict": mv[0], "same_binding": mv[1], "stale_uses": mv[2]}}
            res["fails"].append(dict(where, **f))
    return results


def load_corpus():
    out = []
    d = os.path.join(VERIF, "corpus", "C30")
    if os.path.isdir(d):
        for f in sorted(os.listdir(d)):
            if f.endswith(".json"):
                out.append((f, json.load(open(os.path.join(d, f)))["program"]))
    return out


def run(ctx):
    ctx.cov["rule"] = ("programs of the core printed as Erg: 3-7 top-level statements (integer definitions, functions with one "
                       "parameter or two of which the second has a default value taken from the enclosing scope, functions that "
                       "return a closure over their parameter and outer names, string literals mentioning identifiers in scope with "
                       "a second definition on the same line, print!), bodies nested up to depth 2; names are drawn from a small "
                       "pool and re-used in inner scopes (shadowing) with probability 0.45; textDocument/rename to a fresh name is "
                       "requested at EVERY identifier occurrence (definition site and each use) of every binding. non-trivial = "
                       "distinct (program, binder) pair whose occurrence set has at least two positions")
    ctx.cov["trusted_base"] = ["Coq 8.16.1 kernel", "extraction (ExtrOcamlBasic only) + extract/driver.ml",
                               "harness/els (Server::new + dispatch; plays the editor: writes the file back and sends didSave after "
                               "each rename)", "checks/c30.py pretty-printer (core AST -> Erg text and source ranges)",
                               "the erg CLI (`erg run`, `erg check`) as observer"]
    ctx.assumptions = ["the new name is fresh: it occurs nowhere in the program",
                       "single-module programs; the rename position is an identifier occurrence of a user-defined binding",
                       "erg's checker and run time depend only on the binding structure of these programs (sampled: the core's "
                       "evaluator is compared with `erg run` on every generated program)"]
    proof = ctx.coq(["Els/Props_C30.v"])
    runner = Runner(ctx)
    try:
        _run(ctx, proof, runner)
    finally:
        runner.close()


def _run(ctx, proof, runner):
    n = ctx.scale(24, 600)
    progs = [("corpus:" + f, p) for f, p in load_corpus()] + [("generated", gen_program(ctx.rng)) for _ in range(n)]
    n_corr = n_fail = 0
    first_corr = None
    t0 = time.time()
    bs = ctx.scale(48, 120)
    for k in range(0, len(progs), bs):
        if n_fail >= 3:
            break
        batch = progs[k:k + bs]
        res = evaluate(ctx, runner, [p for _, p in batch], budget=ctx.scale(2, None))
        for (origin, prog), r in zip(batch, res):
            ctx.count("program: " + origin.split(":")[0])
            for ft in prog.get("features", []):
                ctx.count("feature: " + ft)
            ctx.count("rename requests", r["requests"])
            ctx.count("distinct edit sets judged (apply, erg run)", r["edit_sets"])
            ctx.count("original program: " + r["orig"][0])
            nb = len(prog["binders"])
            ctx.case(prog["text"], nontrivial=nb >= 2 and r["orig"][0] == "ok",
                     sample={"program": prog["text"], "bindings": nb, "rename_requests": r["requests"]} if nb >= 4 else None)
            for kf in r["known"]:
                ent = next((k for k in ctx.known() if k.get("id") == kf["id"]), None)
                if ent is None:
                    r["fails"].append(dict(kf, why="unlisted: " + kf["id"]))
                else:
                    ctx.known_finding(ent)
                    ctx.count("known finding reproduced: " + kf["id"])
            for f in r["fails"]:
                n_fail += 1
                if n_fail <= 3:
                    ctx.violation("failing-input", "rename at line %s col %s (`%s`): %s" % (
                        (f.get("line_col") or ["?", "?"])[0], (f.get("line_col") or ["?", "?"])[1], f.get("name"), f["why"]),
                        case={"program": prog, "rename_position": f.get("position"), "line_col": f.get("line_col"), "new_name": "zq9"},
                        impl={k2: v for k2, v in f.items() if k2 not in ("why",)}, judge=f["why"])
            if r["corr"] and not r["fails"]:
                n_corr += len(r["corr"])
                first_corr = first_corr or {"program": prog, "detail": r["corr"][:3]}
    ctx.log("%d programs evaluated in %.1fs" % (len(progs), time.time() - t0))
    if n_fail == 0 and (n_corr or not proof.ok):
        what = []
        if not proof.ok:
            what.append("theorem(s) no longer check: " + proof.summary())
        if n_corr:
            what.append("%d disagreements between model and implementation (edit set vs occurrence set / evaluator vs erg run)" % n_corr)
        ctx.violation("broken-correspondence" if n_corr else "broken-theorem", "; ".join(what), case=first_corr,
                      theorem=proof.summary() or None, no_input=True)


def replay(ctx, path):
    r = json.load(open(path))
    prog = r["case"]["program"]
    runner = Runner(ctx)
    try:
        res = evaluate(ctx, runner, [prog])[0]
        print(prog["text"])
        print("original:", res["orig"])
        print("correspondence:", json.dumps(res["corr"], indent=1)[:3000])
        print("failures:", json.dumps(res["fails"], indent=1)[:6000])
        for f in res["fails"][:3]:
            ctx.violation("failing-input", f["why"], case=r["case"], impl=f, judge=f["why"])
    finally:
        runner.close()
