"""C02 — type-checked programs do not fail with run-time type errors.

proof:   coq/Typing/Props_C02.v — type_soundness (big-step, any fuel): a program the reference checker accepts never ends in
         TypeError / AttributeError / NameError / the Nat wrapper's ValueError; preservation (every evaluated expression
         has a value of its static type); operator_table_sound (every row of the declared operator table gen/Sigs.v that
         the fragment uses is sound for the run-time operators — validated row by row by computation, so a declaration
         that promises too much breaks the proof); pow_declared_nat_refuted (the declared table as it is: Int ** Int : Nat
         is false: K_pow).  PARTIAL: fragment of Typing/Check.v; erg tied program by program.
tie:     (a) verdict correspondence `erg check` vs the extracted checker on generated annotated programs, both directions
         counted (erg rejects / model accepts = precision, no alarm; erg accepts / model rejects goes to (b));
         (b) every erg-accepted program is run (`erg run`) with operands from wide ranges incl. negative / mixed-sign
         values: the uncaught exception class is the observation; for programs inside the model the model's outcome class
         is compared as well.
judge:   Spec.judge_c02 (extracted) on the observed exception class.  Known classes (Spec.Known_C02, extracted):
         known_pow (K_pow) and known_ifarith (arithmetic on an if-valued operand), see known/C02.json.
"""
import shutil

from lib.vplib import *
from checks import c26
from pylib import typing_gen as T
from pylib import typing_run as R

REGISTRY = dict(
    category="proof",
    text="PARTIAL proof (level: proof (partial), fragment: annotated Nat/Int/Float/Str/Bool/List values, operators, "
         "comparisons, if-expressions, user functions/lambdas with defaults and locals, builtin methods, if!/for! blocks). "
         "Coq: type soundness of a reference checker for the fragment against a run-time semantics made of the "
         "Python-semantics operators of CoreErg/Sem.v, the Nat wrapper codegen.rs puts around typed results, builtin "
         "methods and user functions (theorems type_soundness, preservation, operator_table_sound: the declared result "
         "classes dumped from the live compiler are checked row by row). The declared table as it is refutes the "
         "property (pow_declared_nat_refuted, finding K_pow). erg is tied by verdict correspondence and by running every "
         "erg-accepted generated program (loosely typed programs, an operator sweep over class pairs with negative and "
         "mixed-sign operands, functions fed by callers with such literals) and judging the uncaught exception class.",
    note="Trusted: Coq kernel, extraction + OCaml driver, CoreErg/Sem.v as the reading of Python's operators (validated "
         "by property C01), pylib/typing_gen.py printer, harness/sigs. Unmodelled run-time operations (float // % **, "
         "negative exponents) are an explicit outcome, excluded from the outcome comparison but still judged on erg. "
         "Known findings: K_pow, K_ifarith (known/C02.json). Not covered: classes, traits, generics, mutable objects, "
         "while!, keyword arguments, procedures, pattern definitions.",
    technique="Coq type-soundness proof (big-step preservation with explicit legitimate errors) over a hand model + "
              "operator table regenerated from the compiler and validated by computation + differential run of erg, "
              "judged by the extracted Spec.judge_c02 and classified by the extracted Known_C02 predicates",
    design="DESIGN.md §4 C02, CoreErg")

FUEL = 60
EXC_CODE = {"": 0, "ZeroDivisionError": 1, "AssertionError": 2, "IndexError": 3, "TypeError": 4, "ValueError": 5,
            "OverflowError": 6, "NameError": 7, "UnboundLocalError": 7, "AttributeError": 8}
CODE_NAME = {0: "ok", 1: "ZeroDivisionError", 2: "AssertionError", 3: "IndexError", 4: "TypeError", 5: "ValueError(wrapper)",
             6: "OverflowError", 7: "NameError", 8: "AttributeError", 99: "unmodelled", 98: "static", -998: "out-of-fuel",
             -996: "rejected", -997: "decode-error"}

CLASSES = [("Nat", T.NAT), ("Int", T.INT), ("Float", T.FLOAT), ("Bool", T.BOOL)]
VALS = {T.NAT: [0, 1, 2, 3, 7, 255, 2**31 - 1], T.INT: [0, 1, -1, -2, 3, -3, -7, 10, -255, -2**31 + 1],
        T.FLOAT: [0.0, 0.5, -0.5, 1.5, -2.0, 2.0, -1.0, 3.25], T.BOOL: [0, 1]}


def val_lit(ty, v):
    if ty == T.FLOAT:
        return T.lit(2, T.f2bits(float(v)))
    if ty == T.BOOL:
        return T.lit(4, v)
    return T.nat(v)


def sweep_programs(rng, n):
    """f(a: A, b: B) = a op b (and unary / method forms), called with edge values incl. negative and mixed-sign ones"""
    out = []
    for _ in range(n):
        (na, ta), (nb, tb) = rng.choice(CLASSES), rng.choice(CLASSES)
        k = rng.random()
        if k < 0.7:
            body = [T.E_BIN, rng.randint(0, 6), [T.E_VAR, 1], [T.E_VAR, 2]]
        elif k < 0.8:
            body = [T.E_UN, rng.choice([0, 1, 3]), [T.E_VAR, 1]]
        elif k < 0.9:
            body = [T.E_METH, rng.choice([T.M_SUCC, T.M_PRED, T.M_BIT_COUNT, T.M_ABS, T.M_ABSF]), [T.E_VAR, 1], []]
        else:
            body = [T.E_BIN, rng.randint(0, 6), [T.E_BIN, rng.randint(0, 2), [T.E_VAR, 1], [T.E_VAR, 2]], [T.E_VAR, 2]]
        prog = [[T.S_FUN, 3, 0, [[1, T.wire_ty(ta), []], [2, T.wire_ty(tb), []]], 0, [], body]]
        for _ in range(3):
            prog.append([T.S_PRINT, [[T.E_CALL, 3, [val_lit(ta, rng.choice(VALS[ta])), val_lit(tb, rng.choice(VALS[tb]))]]]])
        out.append(prog)
    return out


class Runner:
    def __init__(self, ctx):
        self.ctx = ctx
        self.erg = ctx.erg_bin()
        self.env = ctx.erg_env()
        self.model = ctx.model("Typing")
        self.work = os.path.join(CACHE, "tmp", "c02-%d" % os.getpid())
        shutil.rmtree(self.work, ignore_errors=True)
        os.makedirs(self.work, exist_ok=True)
        self.n = 0

    def close(self):
        shutil.rmtree(self.work, ignore_errors=True)

    def erg_obs(self, sources, mode):
        items = []
        for s in sources:
            self.n += 1
            items.append(("p%d" % self.n, s))
        return R.observe(self.erg, self.env, self.work, items, mode)

    def judge(self, code):
        return self.model.run([[8, code]])[0][0] == 1

    def run_one(self, prog):
        src = T.to_erg(prog)
        c = self.erg_obs([src], "check")[0]
        if c.rc != 0:
            return None, None
        r = self.erg_obs([src], "run")[0]
        return r, EXC_CODE.get(r.exc, 99 if r.exc else 0)


def shrink(rn, prog, code):
    def fails(cand):
        r, c = rn.run_one(cand)
        return r is not None and c == code
    return T.shrink_prog(prog, fails, budget=14)


def witness_trees():
    pw = [[T.S_DEF, 1, 0, T.lit(1, -2)], [T.S_DEF, 2, 0, [T.E_BIN, 6, [T.E_VAR, 1], T.lit(0, 3)]], [T.S_PRINT, [[T.E_VAR, 2]]]]
    ifa = [[T.S_FUN, 3, 0, [[1, [2], []], [2, [2], []]], 0, [],
            [T.E_BIN, 1, [T.E_IF, [T.E_CMP, 4, [T.E_VAR, 1], [T.E_VAR, 2]], [T.E_VAR, 1], [T.E_VAR, 2]], T.lit(0, 300)]],
           [T.S_PRINT, [[T.E_CALL, 3, [T.lit(0, 1), T.lit(0, 2)]]]]]
    return {"K_pow": pw, "K_ifarith": ifa}


def run(ctx):
    c26.gen_sigs(ctx)
    proof = ctx.coq(["Typing/Props_C02.v"])
    ctx.log(proof.summary())
    rn = Runner(ctx)
    try:
        _run(ctx, rn, proof)
    finally:
        rn.close()


def _run(ctx, rn, proof):
    cov = ctx.cov
    cov["rule"] = ("a case = one generated program; non-trivial = erg accepts it and it is run (the exception class of the "
                   "run is judged)")
    cov["trusted_base"] = ["Coq kernel", "extraction + extract/driver.ml", "CoreErg/Sem.v operator semantics (tied by C01)",
                           "pylib/typing_gen.py (printer)", "harness/sigs (declared operator classes)"]
    ctx.assumptions = ["type_soundness is about the reference checker and the run-time model; erg is sampled",
                       "IEEE-754 arithmetic of CoreErg/Sem.v (SpecFloat) is what CPython uses"]
    known = {k["id"]: k for k in ctx.known()}
    wt = witness_trees()

    # ---- known findings: replay the witnesses
    for kid, tree in wt.items():
        r, code = rn.run_one(tree)
        ctx.count("witness")
        if r is not None and not rn.judge(code):
            if kid in known:
                ctx.known_finding(known[kid])
            else:
                ctx.violation("failing-input", "witness %s: an accepted program ends in %s" % (kid, r.exc),
                              case={"erg": T.to_erg(tree), "tree": tree}, impl=r.as_json(), judge={"judge_c02": False})
        elif kid in known:
            ctx.notes.append("NOTE stale-known-finding %s: the witness no longer reproduces" % kid)
            print("NOTE stale-known-finding property=C02 id=%s" % kid)

    # ---- corpus
    progs, kinds = [], []
    cdir = os.path.join(VERIF, "corpus", "C02")
    if os.path.isdir(cdir):
        for f in sorted(os.listdir(cdir)):
            if f.endswith(".json"):
                progs.append(json.load(open(os.path.join(cdir, f)))["tree"])
                kinds.append("corpus")
    # ---- generated
    n = ctx.scale(150, 3500)
    for _ in range(n):
        k = ctx.rng.random()
        if k < 0.45:
            progs.append(T.Gen(ctx.rng, "c02", max_stmts=ctx.rng.choice([4, 6, 9])).program())
            kinds.append("loose")
        elif k < 0.7:
            progs.append(T.Gen(ctx.rng, "c05", max_stmts=ctx.rng.choice([5, 8])).program())
            kinds.append("well-typed")
        else:
            progs += sweep_programs(ctx.rng, 1)
            kinds.append("operator-sweep")
    failing = []          # (prog, obs, code, kind)
    mismatches = []
    for off in range(0, len(progs), 500):
        chunk, ck = progs[off:off + 500], kinds[off:off + 500]
        verd = rn.model.run([[5, p] for p in chunk])
        srcs = [T.to_erg(p) for p in chunk]
        chk = rn.erg_obs(srcs, "check")
        acc = [i for i, o in enumerate(chk) if o.rc == 0]
        runs = rn.erg_obs([srcs[i] for i in acc], "run")
        mruns = rn.model.run([[1, 0, FUEL, chunk[i]] for i in acc])
        run_of = {i: (r, m) for i, r, m in zip(acc, runs, mruns)}
        for i, (p, kd, v, c) in enumerate(zip(chunk, ck, verd, chk)):
            lax_ok = len(v) == 4 and v[0] == 1
            erg_ok = c.rc == 0
            ctx.count("kind:" + kd)
            ctx.count("verdict:model-%s/erg-%s" % ("accepts" if lax_ok else "rejects", "accepts" if erg_ok else "rejects"))
            if c.crashed:
                ctx.count("erg-crashed-at-check")
            if not erg_ok:
                ctx.case(["rejected", srcs[i]], nontrivial=False)
                continue
            r, m = run_of[i]
            code = EXC_CODE.get(r.exc, 99 if r.exc else 0)
            ctx.count("run:" + (r.exc or "ok"))
            for f in T.features(p):
                if f.startswith(("bin:", "method:", "unary:")):
                    ctx.count("op:" + f)
            ctx.case(["run", srcs[i]], nontrivial=True,
                     sample={"kind": kd, "erg": srcs[i], "exception": r.exc or None, "model_accepts": lax_ok})
            if not rn.judge(code):
                failing.append((p, r, code, kd, v))
            elif lax_ok and len(m) == 3 and m[0] not in (99, -998, -996, 98) and v[2] == 0 and v[3] == 0 and m[0] != code:
                mismatches.append((p, r, code, m[0]))
    cov["verdict_correspondence"] = {k[8:]: v for k, v in cov["distribution"].items() if k.startswith("verdict:")}

    # ---- judge the failing programs: shrink, classify by the extracted Known_C02 predicates
    reported = 0
    seen_known = set()
    for p, r, code, kd, v in failing:
        cls = "known_pow" if (len(v) == 4 and v[2] == 1) else "known_ifarith" if (len(v) == 4 and v[3] == 1) else None
        small = p
        if cls is None and reported < 3:
            small = shrink(rn, p, code)
            v2 = rn.model.run([[5, small]])[0]
            cls = "known_pow" if (len(v2) == 4 and v2[2] == 1) else "known_ifarith" if (len(v2) == 4 and v2[3] == 1) else None
        if cls is not None:
            kid = {"known_pow": "K_pow", "known_ifarith": "K_ifarith"}[cls]
            ctx.count("known:" + kid)
            if kid in known:
                ctx.known_finding(known[kid])
                seen_known.add(kid)
                continue
        if reported < 3:
            reported += 1
            r2, c2 = rn.run_one(small)
            mo = rn.model.run([[1, 0, FUEL, small]])[0]
            ctx.violation("failing-input",
                          "a program erg accepts ends in %s at run time (%s)" % (r.exc, r.exc_line[:120]),
                          case={"erg": T.to_erg(small), "tree": small, "generator": kd},
                          impl=(r2 or r).as_json(), model={"status": CODE_NAME.get(mo[0], mo[0]) if mo else None,
                                                           "lax/strict/known_pow/known_ifarith": rn.model.run([[5, small]])[0]},
                          judge={"judge_c02": False})
    if mismatches:
        cov["outcome_mismatches"] = len(mismatches)
        p, r, code, mcode = mismatches[0]
        ctx.notes.append("outcome class differs on %d programs inside the model (first: erg %s, model %s): %s" % (
            len(mismatches), CODE_NAME.get(code, code), CODE_NAME.get(mcode, mcode), T.to_erg(p)[:500]))
    if not ctx.violations:
        if not proof.ok:
            ctx.violation("broken-theorem", "Props_C02 no longer builds: %s" % (proof.broken[:2],), theorem="type_soundness",
                          case={"broken": [list(b) for b in proof.broken[:3]]}, no_input=True)
        elif mismatches:
            p, r, code, mcode = mismatches[0]
            ctx.violation("broken-correspondence",
                          "run-time outcome class of erg (%s) and of the model (%s) differ on a program both accept"
                          % (CODE_NAME.get(code, code), CODE_NAME.get(mcode, mcode)),
                          case={"erg": T.to_erg(p), "tree": p}, impl=r.as_json(), model={"status": CODE_NAME.get(mcode, mcode)},
                          no_input=True)


def replay(ctx, path):
    r = json.load(open(path))
    rn = Runner(ctx)
    try:
        tree = r["case"]["tree"]
        print(T.to_erg(tree))
        o, code = rn.run_one(tree)
        v = rn.model.run([[5, tree]])[0]
        m = rn.model.run([[1, 0, FUEL, tree]])[0]
        print("model: lax_ok=%s strict_ok=%s known_pow=%s known_ifarith=%s run(lax)=%s" % (v[0], v[1], v[2], v[3], CODE_NAME.get(m[0], m[0])))
        if o is None:
            print("erg rejects the program")
            return
        ok = rn.judge(code)
        print("erg run: rc=%d exception=%s (%s); judge_c02=%s" % (o.rc, o.exc or "-", o.exc_line, ok))
        if not ok and not (v[2] == 1 or v[3] == 1):
            ctx.violation("failing-input", r.get("what", "replayed"), case=r["case"], impl=o.as_json(), judge={"judge_c02": False})
    finally:
        rn.close()
