"""C19 — compilation output is deterministic and schedule-independent.

proof:          coq/Build/Props_C19.v: confluence and parallel_equals_sequential of the analysis transition system of
                coq/Build/Model.v (module results as pure functions of source and dependency results)
tie:            every generated project (C20's generator, half of them with a type error / name error / warning) is compiled
                k times by the real `erg` with different seeds of the schedule perturbation hook
                (ERG_VERIF_SCHED_SEED: yields/sleeps at analysis-thread boundaries), with the `parallel` feature on and off;
                the side conditions of the theorems (good_script) are evaluated on every observed trace
judge:          Build/Spec.v judge_C19 (extracted): bytes 16.. of the produced .pyc and the sorted diagnostics are equal
                in all builds of a project
"""
import json
import os
import re
import shutil
import tempfile

from lib.vplib import *
from pylib import c20_gen as G
from pylib import c20_run as R

REGISTRY = dict(
    category="proof",
    text="Coq proof of confluence of the module-analysis transition system (any two complete runs give every module the same result, "
         "a parallel run agrees with the sequential one) under checkable side conditions on the start order, tied to erg by "
         "compiling each generated multi-module project repeatedly under seeded schedule perturbation with the parallel feature "
         "on and off and comparing .pyc bytes 16.. and sorted diagnostics.",
    note="proof (partial): real data races inside Shared<T> cannot be exhibited; FxHash iteration order is assumed deterministic "
         "(trusted base); code generation is outside the model. Known finding: inlined module with a second importer (the "
         "diagnostics depend on the schedule).",
    technique="Coq proof over hand model + repeated real builds under seeded schedule perturbation (parallel on/off) + extracted judge",
    design="DESIGN.md §4 C19")


def compile_in(d, erg, env, seed, tag):
    """one `erg compile` of the project in directory d (the .pyc and the trace of the previous build are removed first)"""
    tr = os.path.join(d, "trace.txt")
    for f in os.listdir(d):
        if f.endswith(".pyc") or f == "trace.txt":
            os.remove(os.path.join(d, f))
    r = R.erg_with_retry(erg, env, d, "compile", tr, seed)
    pycs = {}
    for f in sorted(os.listdir(d)):
        if f.endswith(".pyc"):
            pycs[f] = open(os.path.join(d, f), "rb").read()[16:].hex()
    diags = sorted(l.rstrip() for l in r["err"].replace(d, "<D>").splitlines() if l.strip())
    return {"seed": seed, "build": tag, "rc": r["rc"], "timeout": r["timeout"], "pyc": pycs, "diags": diags,
            "trace": G.parse_trace(tr), "slow": r.get("slow", False)}


def compile_many(env, proj, builds):
    """all builds of one project, one after the other in the same directory: the same sources at the same paths
    (the code objects carry the absolute source path, and hash-ordered collections are keyed by paths)"""
    d = tempfile.mkdtemp(prefix="c19-", dir=R.tmp_root())
    try:
        G.write_project(proj, d)
        return [compile_in(d, erg, env, seed, tag) for tag, erg, seed in builds]
    finally:
        shutil.rmtree(d, ignore_errors=True)


def compile_once(erg, env, proj, seed, tag):
    return compile_many(env, proj, [(tag, erg, seed)])[0]


def sample_of(p):
    return {"kind": p["kind"], "imports": p["imports"], "consts": p["consts"], "defect": p.get("defect"),
            "lazy_entry": bool(p.get("lazy_entry"))}


def build_all(ctx, ergs, env, projs, k):
    plans = []
    for pi, p in enumerate(projs):
        plans.append([(tag, erg, 1000 * (pi + 1) + 17 * j + (0 if tag == "parallel" else 500) + ctx.seed % 97)
                      for tag, erg in ergs for j in range(k)])
    return R.pmap(lambda a: compile_many(env, a[0], a[1]), list(zip(projs, plans)), workers=ctx.scale(8, 10))


def run(ctx):
    ctx.cov["rule"] = ("generated multi-module projects (C20's generator: DAGs, diamonds, self-imports, 2-/3-cycles; about half with a type "
                       "error, a name error or an unused-variable warning in a non-entry module), each compiled k times per build "
                       "(parallel on / off) with different schedule seeds; non-trivial = distinct project with >= 2 modules whose builds "
                       "produced a .pyc or a non-empty set of diagnostics")
    ctx.cov["trusted_base"] = ["Coq 8.16.1 kernel", "extraction (ExtrOcamlBasic only) + extract/driver.ml",
                               "hook erg_common::verif::jitter (seeded yields/sleeps) and its call sites",
                               "FxHash iteration order is a function of the keys (no random seed)",
                               "modelled, not verified: std::thread scheduling, Shared<T> (RwLock), the lowerer, code generation"]
    ctx.assumptions = ["the perturbation hook reaches the schedules that matter (delays of 0..40 ms at thread begin/end, join, spawn, inline lowering)",
                       "module analysis is a pure function of source and dependency results (GenericPackageBuilder doc comment: build_module must be idempotent)"]
    proof = ctx.coq(["Build/Props_C19.v"])
    model = ctx.model("Build")
    env = ctx.erg_env()
    ergs = [("parallel", ctx.erg_bin()), ("sequential", ctx.erg_bin(features=[]))]
    k = ctx.scale(5, 30)
    projs = []
    cdir = os.path.join(VERIF, "corpus", "C19")
    if os.path.isdir(cdir):
        for f in sorted(os.listdir(cdir)):
            projs.append(json.load(open(os.path.join(cdir, f)))["project"])
    kinds = ["dag", "cycle2", "diamond", "cycle3", "self", "random", "chain", "shared-cycle"]
    n = ctx.scale(7, 40)
    for i in range(n):
        p = G.gen_project(ctx.rng, kinds[i % len(kinds)], nmax=6)
        if i % 3 != 2:
            p["lazy_entry"] = True      # the entry never looks at its last import: that module is joined by join_all only
        if i % 2 == 1 or i % 3 == 0:
            p = G.add_defect(ctx.rng, p)
        projs.append(p)
    per = build_all(ctx, ergs, env, projs, k)
    m0 = model.run([[0, 0, R.sx_project(p), [], 0] for p in projs])
    n_viol = 0
    corr = []
    known_seen = False
    c2, idx = [], []
    for pi, (p, runs, m) in enumerate(zip(projs, per, m0)):
        known = (m[0] != 0) or bool(m[11])
        base = runs[0]
        diff = None
        for r in runs[1:]:
            pe = (r["pyc"] == base["pyc"])
            de = (r["diags"] == base["diags"]) and (r["timeout"] == base["timeout"])
            if not (pe and de):
                diff = (base, r, pe, de)
                break
        ctx.count("kind:" + p["kind"])
        ctx.count("defect:" + (p["defect"]["what"] if p.get("defect") else "none"))
        ctx.count("builds", len(runs))
        if any(r["slow"] for r in runs):
            ctx.count("project with a build slower than %d s" % R.HANG_S)
        nontriv = p["n"] >= 2 and (bool(base["pyc"]) or bool(base["diags"]))
        ctx.case(sample_of(p), nontrivial=nontriv, sample=sample_of(p))
        if diff:
            a, b, pe, de = diff
            v = model.run([[4, int(pe), int(de)]])[0]
            if v == 1:
                continue
            if known:
                known_seen = True
                ctx.count("known finding class K2")
                continue
            n_viol += 1
            if n_viol <= 3:
                dd = [l for l in a["diags"] if l not in b["diags"]][:6] + ["--"] + [l for l in b["diags"] if l not in a["diags"]][:6]
                ctx.violation("failing-input",
                              "two builds of the same sources differ (%s): build %s seed %s vs build %s seed %s" % (
                                  "bytecode" if not pe else "diagnostics", a["build"], a["seed"], b["build"], b["seed"]),
                              case={"project": sample_of(p) | {"n": p["n"]}, "files": G.render(p),
                                    "a": {"build": a["build"], "seed": a["seed"]}, "b": {"build": b["build"], "seed": b["seed"]}},
                              impl={"pyc_equal": pe, "diags_equal": de, "diag_difference": dd, "rc": [a["rc"], b["rc"]]},
                              model={"Known_C19": known}, judge=False)
        # side conditions of the theorems on the observed traces (first parallel and first sequential build)
        if not known:
            for r in (runs[0], runs[k] if len(runs) > k else runs[-1]):
                snap = R.snapshot(r["trace"])
                if snap is None or not any(t[0] == "DEPS-LEAVE" for t in r["trace"]):
                    continue
                sc, labels = R.script_and_labels(r["trace"], snap)
                E = [[nd[0], d] for nd in snap["nodes"] for d in nd[1]]
                c2.append([2, snap["root"], E, snap["inlines"], sc, labels])
                idx.append((pi, r["build"], r["rc"]))
    m2 = model.run(c2) if c2 else []
    for (pi, build, rc), b, c in zip(idx, m2, c2):
        if b[3] != 1:
            corr.append({"project": sample_of(projs[pi]), "build": build, "what": "good_script false on the observed script %s" % c[4]})
        elif b[0] != -1:
            corr.append({"project": sample_of(projs[pi]), "build": build, "what": "trace leaves the transition system at label %d %s" % (b[0], c[5][b[0]] if b[0] < len(c[5]) else "?")})
        elif b[1] != 1:
            corr.append({"project": sample_of(projs[pi]), "build": build, "what": "trace ends with unfinished threads"})
    ctx.cov["traces_validated_against_impl"] = len(c2)
    ctx.cov["builds_per_project"] = 2 * k
    # known finding: K2 witness
    for kf in ctx.known():
        w = kf.get("witness", {}).get("project")
        if not w:
            continue
        w = dict(w)
        runs = build_all(ctx, ergs, env, [w], ctx.scale(4, 10))[0]
        differs = any(r["pyc"] != runs[0]["pyc"] or r["diags"] != runs[0]["diags"] for r in runs[1:])
        if differs or known_seen:
            ctx.known_finding(kf)
        else:
            ctx.notes.append("NOTE stale-known-finding %s: builds of the witness did not differ this time" % kf.get("id"))
            print("NOTE stale-known-finding property=C19 %s" % kf.get("id"))
    if n_viol == 0 and (corr or not proof.ok):
        what = []
        if not proof.ok:
            what.append("theorem(s) no longer check: " + proof.summary())
        if corr:
            what.append("%d observed traces outside the model's assumptions; first: %s" % (len(corr), corr[0]["what"][:300]))
        ctx.violation("broken-correspondence" if corr else "broken-theorem", "; ".join(what), case=corr[0] if corr else None,
                      theorem=proof.summary() or None, no_input=True)


def replay(ctx, path):
    r = json.load(open(path))
    c = r.get("case") or {}
    p = c.get("project")
    if not p:
        print("replay file names no project (theorem or correspondence broke): %s" % r.get("what"))
        return
    p = dict(p)
    p.setdefault("defect", None)
    env = ctx.erg_env()
    ergs = {"parallel": ctx.erg_bin(), "sequential": ctx.erg_bin(features=[])}
    a, b = c.get("a", {"build": "parallel", "seed": 1}), c.get("b", {"build": "sequential", "seed": 2})
    differs = False
    for attempt in range(5):
        ra, rb = compile_many(env, p, [(a["build"], ergs[a["build"]], a["seed"]), (b["build"], ergs[b["build"]], b["seed"])])
        pe, de = ra["pyc"] == rb["pyc"], ra["diags"] == rb["diags"]
        print("attempt %d: pyc_equal=%s diags_equal=%s rc=%s/%s" % (attempt, pe, de, ra["rc"], rb["rc"]))
        if not (pe and de):
            differs = True
            print("only in a:", [l for l in ra["diags"] if l not in rb["diags"]][:8])
            print("only in b:", [l for l in rb["diags"] if l not in ra["diags"]][:8])
            break
    if differs:
        ctx.violation("failing-input", "two builds of the same sources differ", case=c, impl={"pyc_equal": pe, "diags_equal": de}, judge=False)
