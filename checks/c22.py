"""C22 — Functions cannot perform side effects.

proof:          coq/Effects/Props_C22.v over the model coq/Effects/Model.v (transcription of
                crates/erg_compiler/effectcheck.rs) and the Spec coq/Effects/Spec.v
correspondence: generated subroutine bodies (effectful operations at arbitrary depths) are pretty-printed to Erg
                source in three contexts (function / procedure / module level); harness/effects runs the real
                pipeline (HIRBuilder: lowering + SideEffectChecker) in-process and dumps the effect errors and the
                lowered HIR as mini-HIR; the extracted model runs on that dump and must produce the same errors
                (kind, location, caused_by, order); the dump must have the shape the generator predicted
judge:          Spec.judge (extracted) on the *generated* tree: an effect inside the function that erg accepts, or a
                quiet procedure / module-level body that erg rejects with an effect error, is the failing input
"""
import concurrent.futures
from lib.vplib import *

REGISTRY = dict(
    category="proof",
    text="Coq model of SideEffectChecker (coq/Effects/Model.v, arm by arm incl. block stack and in_context_effects_allowed) with "
         "theorems for every depth and position: an effect inside a function is reported (EffectIn -> errors), a quiet body is "
         "accepted as procedure body and at module level, the checker does not panic; tied to effectcheck.rs by running the real "
         "lowering + effect checker in-process on generated programs and comparing its errors with the extracted model run on the "
         "dumped HIR; the extracted Spec judge decides EffectIn on the generated tree.",
    note="Trusted: Coq kernel, extraction + generic OCaml driver, harness/effects (abstraction HIR -> mini-HIR: type-level "
         "attributes such as is_procedure()/is_mut_type()/def_namespace are read from the type checker's annotations), the "
         "python pretty-printer. Known finding (class Known_C22): effect in a default value of a nested procedure's parameter. "
         "constructor_destructor_check's type-level condition is an opaque flag (never set by generated programs).",
    technique="Coq proof over hand model + in-process correspondence (extracted model on the dumped HIR vs real checker) + extracted Spec judge",
    design="DESIGN.md §4 C22")

NS = "<module>"
PREAMBLE = """i = !0
l = !["a"]
n = 5
rec = {.a = !1; .b = 1}
q!() =
    print! "q"
    1
h(a: Int, b := 1) = a + b
idf(a: Int) = a
"""
FUEL = 120


# ------------------------------------------------------------------ mini-HIR constructors (wire format of Extract.v)
def Lit(): return [0]
def Ident(mut=0, param=0, ns="", name=""): return [1, 0, mut, param, 0, ns if mut else "", name]
def Attr(obj, mut=0, ns="", name=""): return [2, 0, mut, 0, 0, ns if mut else "", obj, name]
def Call(callee, pos=(), cp=0, attr=None, var=None, kw=(), kwvar=None):
    return [3, 0, callee, cp, 0 if attr is None else 1, 1 if attr else 0, 0, list(pos),
            [] if var is None else [var], list(kw), [] if kwvar is None else [kwvar]]
def BinOp(l, r, isop=0): return [4, 0, isop, l, r]
def Unary(e): return [5, e]
def ListN(es): return [6, list(es)]
def TupleN(es): return [9, list(es)]
def SetN(es): return [10, list(es)]
def DictN(kvs): return [12, [[k, v] for k, v in kvs]]
def Record(defs): return [14, list(defs)]
def Param(named=1, bang=0): return [0, 0, named, bang]
def Params(nd=(), dflt=()): return [list(nd), [], [[p, e] for p, e in dflt], [], []]
def Lambda(proc, params, body): return [15, proc, params, list(body)]
def Def(name, body, proc=None, params=None, pub=0, ltp=0, const=0):
    proc = (1 if name.endswith("!") else 0) if proc is None else proc     # Signature::is_procedural(): the name ends with `!`
    return [0, proc, 0 if params is None else 1, const, pub, name, [] if params is None else [params], [], list(body), ltp]
def DefE(d): return [16, d]
def TypeAsc(e): return [19, e]
def builtin(name): return Ident(name=name)


# ------------------------------------------------------------------ generator: source-level tree
class Gen:
    """builds one body: list of statements + final Int expression.  IE nodes are tuples; see pr_ie / hir_ie."""

    def __init__(self, rng, prefix, maxdepth, peff):
        self.rng = rng
        self.prefix = prefix
        self.k = 0
        self.maxdepth = maxdepth
        self.peff = peff          # probability weight of effectful choices
        self.pbang = rng.choice([0.0, 0.2, 0.5])
        self.used = set()

    def fresh(self, kind, sc=None):
        """fresh name.  Naming dimensions: plain variables (kinds v c r m) get a trailing `!` now and then; a function
        defined inside a variable block may take a name that is a string prefix of an enclosing definition's name
        (sc["pfx"], reserved by the "def" statement) or extends it (sc["encl"])"""
        r = self.rng
        if sc is not None and kind in ("k", "g") and r.random() < 0.35:
            if sc["pfx"] and r.random() < 0.6:
                cand = [n for n in sc["pfx"] if n not in self.used]
                if cand:
                    n = r.choice(cand); self.used.add(n)
                    return n
            cand = [n.rstrip("!") + "s" for n in sc["encl"] if n.rstrip("!") + "s" not in self.used]
            if cand:
                n = r.choice(cand); self.used.add(n)
                return n
        self.k += 1
        n = "%s%s%d" % (self.prefix, kind, self.k)
        if kind in ("v", "c", "r", "m") and r.random() < self.pbang:
            n += "!"
        self.used.add(n)
        return n

    def ie(self, sc, d):
        r = self.rng
        leafs = [("lit",), ("x",), ("n",)] + [("var", v) for v in sc["int"]] + [("asc", v) for v in sc["int"][:1] if not v.endswith("!")] + \
                [("recattr", v) for v in sc["rec"]]
        effs = [("i",), ("q",), ("reca",)] + [("mread", m) for m in sc["mut"]] + [("callr", rn, ("lit",)) for rn in sc["proc"]] + \
               [("callg", g, ("lit",)) for g in sc["plam"]]
        if d <= 0 or r.random() < 0.25:
            if r.random() < self.peff:
                return r.choice(effs)
            return r.choice(leafs)
        k = r.choice(["bin", "bin", "neg", "h", "hkw", "idf", "idfvar", "hkwvar", "lenl", "lent", "index", "real", "recattr2",
                      "callk", "callflam", "eff", "bin"])
        a = lambda: self.ie(sc, d - 1)
        if k == "bin": return ("bin", a(), a())
        if k == "neg": return ("neg", a())
        if k == "h": return ("h", a())
        if k == "hkw": return ("hkw", a(), a())
        if k == "idf": return ("idf", a())
        if k == "idfvar": return ("idfvar", a())
        if k == "hkwvar": return ("hkwvar", a(), a())
        if k == "lenl": return ("lenl", a(), a())
        if k == "lent": return ("lent", a(), a())
        if k == "index": return ("index", a(), a())
        if k == "real": return ("real", a())
        if k == "recattr2": return ("rec2", a(), a())
        if k == "callk" and sc["func"]: return ("callk", r.choice(sc["func"]), a())
        if k == "callflam" and sc["flam"]: return ("callg", r.choice(sc["flam"]), a())
        if k == "eff" and r.random() < self.peff * 2:
            e = r.choice(effs)
            if e[0] in ("callr", "callg"):
                return (e[0], e[1], a())
            return ("bin", e, a())
        return ("bin", a(), a())

    def block(self, sc, d, nst=None):
        """(stmts, final ie); definitions made inside are not visible outside"""
        sc = {k: list(v) for k, v in sc.items()}
        n = self.rng.randint(0, 3) if nst is None else nst
        stmts = [self.stmt(sc, d) for _ in range(n)] if d > 0 else []
        return (stmts, self.ie(sc, min(d, 2)))

    def stmt(self, sc, d):
        r = self.rng
        kinds = ["def", "def", "coll", "if", "match", "func", "func", "proc", "plam", "flam", "mut", "mut", "rec"]
        if r.random() < self.peff:
            kinds += ["print", "push", "for", "inc", "print"]
        k = r.choice(kinds)
        if k == "inc" and not sc["mut"]:
            k = "print"
        e = lambda: self.ie(sc, min(d - 1, 2))
        if k == "print": return ("print", e())
        if k == "push": return ("push", e())
        if k == "inc": return ("inc", r.choice(sc["mut"]))
        if k == "def":
            v = self.fresh("v")
            inner = {kk: list(vv) for kk, vv in sc.items()}
            if r.random() < 0.4 and not v.endswith("!"):
                inner["pfx"].append(v)       # an inner function may be called v; this block is then called v + "er"
                self.used.add(v + "er")
                v = v + "er"
            inner["encl"].append(v)
            b = self.block(inner, d - 1)
            sc["int"].append(v)
            return ("def", v, b)
        if k == "coll":
            kind = r.choice(["list", "tuple", "dict"])
            es = [e(), e()] if kind in ("list", "tuple", "dict") else [e()]
            return ("coll", self.fresh("c"), kind, es)
        if k == "rec":
            es = [e(), e()]
            v = self.fresh("r"); sc["rec"].append(v)
            return ("rec", v, es)
        if k == "if":
            c, b1, b2 = e(), self.block(sc, d - 1), self.block(sc, d - 1)
            v = self.fresh("v"); sc["int"].append(v)
            return ("if", v, c, b1, b2)
        if k == "match":
            s = ("match", None, e(), e(), e())
            v = self.fresh("v"); sc["int"].append(v)
            return ("match", v) + s[2:]
        if k == "for":
            inner = {kk: list(vv) for kk, vv in sc.items()}
            inner["int"].append("j")
            body = [self.stmt(inner, d - 1) for _ in range(r.randint(0, 1))] + [("print", self.ie(inner, 1))]
            return ("for", e(), e(), body)
        if k in ("func", "proc"):
            dflt = e() if r.random() < 0.3 else None
            inner = {kk: list(vv) for kk, vv in sc.items()}
            inner["int"] += ["y"] + (["z"] if dflt is not None else [])
            inner["shadow"] = list(sc["mut"])
            b = self.block(inner, d - 1)
            nm = self.fresh("k", sc) if k == "func" else self.fresh("q") + "!"
            sc["func" if k == "func" else "proc"].append(nm)
            return (k, nm, dflt, b)
        if k == "plam":
            inner = {kk: list(vv) for kk, vv in sc.items()}
            inner["int"].append("y")
            b = self.block(inner, d - 1)
            nm = self.fresh("g") + "!"; sc["plam"].append(nm)
            return ("plam", nm, b)
        if k == "flam":
            inner = {kk: list(vv) for kk, vv in sc.items()}
            inner["int"].append("y")
            body = self.ie(inner, min(d - 1, 2))
            nm = self.fresh("g", sc); sc["flam"].append(nm)
            return ("flam", nm, body)
        if k == "mut":
            ee = e()
            if sc["shadow"] and r.random() < 0.5:
                m = sc["shadow"].pop()           # shadows a mutable of an enclosing subroutine (already in sc["mut"])
            else:
                m = self.fresh("m"); sc["mut"].append(m)
            return ("mut", m, ee)
        raise AssertionError(k)


def empty_scope():
    return {"int": [], "mut": [], "rec": [], "func": [], "proc": [], "plam": [], "flam": [], "pfx": [], "encl": [], "shadow": []}


# ------------------------------------------------------------------ printer (source) and predictor (mini-HIR)
class Out:
    """renders a body in one context and predicts the lowered tree"""

    def __init__(self, ctx, ns):
        self.ctx = ctx           # 0 function, 1 procedure, 2 module level
        self.mutns = {}          # mutable local -> namespace of its definition

    # ---- Int expressions
    def pr(self, e):
        t = e[0]
        P = self.pr
        if t == "lit": return "1"
        if t == "x": return "x" if self.ctx != 2 else "n"
        if t == "n": return "n"
        if t == "var": return e[1]
        if t == "asc": return "(%s: Int)" % e[1]
        if t == "recattr": return "%s.a" % e[1]
        if t == "i": return "(i + 1)"
        if t == "q": return "q!()"
        if t == "reca": return "(rec.a + 1)"
        if t == "mread": return "(%s + 1)" % e[1]
        if t == "bin": return "(%s + %s)" % (P(e[1]), P(e[2]))
        if t == "neg": return "(-%s)" % P(e[1])
        if t == "h": return "h(%s)" % P(e[1])
        if t == "hkw": return "h(%s, b := %s)" % (P(e[1]), P(e[2]))
        if t == "idf": return "idf(%s)" % P(e[1])
        if t == "idfvar": return "idf(*[%s])" % P(e[1])
        if t == "hkwvar": return 'h(%s, **{"b": %s})' % (P(e[1]), P(e[2]))
        if t == "lenl": return "len([%s, %s])" % (P(e[1]), P(e[2]))
        if t == "lent": return "len((%s, %s))" % (P(e[1]), P(e[2]))
        if t == "index": return "[%s, %s][0]" % (P(e[1]), P(e[2]))
        if t == "real": return "%s.real" % P(("bin", e[1], ("lit",)))
        if t == "rec2": return "{.a = %s; .b = %s}.a" % (P(e[1]), P(e[2]))
        if t in ("callk", "callr", "callg"): return "%s(%s)" % (e[1], P(e[2]))
        raise AssertionError(e)

    def hir(self, e, sc):
        t = e[0]
        H = lambda x: self.hir(x, sc)
        if t == "lit": return Lit()
        if t == "x": return Ident(param=1, name="x") if self.ctx != 2 else Ident(name="n")
        if t == "n": return Ident(name="n")
        if t == "var": return Ident(param=1 if e[1] in ("y", "z", "j") else 0, name=e[1])
        if t == "asc": return TypeAsc(Ident(param=1 if e[1] in ("y", "z", "j") else 0, name=e[1]))
        if t == "recattr": return Attr(Ident(name=e[1]), name="a")
        if t == "i": return BinOp(Ident(mut=1, ns=NS, name="i"), Lit())
        if t == "q": return Call(Ident(name="q!"), cp=1)
        if t == "reca": return BinOp(Attr(Ident(name="rec"), mut=1, ns="<dummy>", name="a"), Lit())
        if t == "mread": return BinOp(Ident(mut=1, ns=self.mutns[e[1]], name=e[1]), Lit())
        if t == "bin": return BinOp(H(e[1]), H(e[2]))
        if t == "neg": return Lit() if e[1] == ("lit",) else Unary(H(e[1]))     # -1 is a literal
        if t == "h": return Call(Ident(name="h"), [H(e[1])])
        if t == "hkw": return Call(Ident(name="h"), [H(e[1])], kw=[H(e[2])])
        if t == "idf": return Call(Ident(name="idf"), [H(e[1])])
        if t == "idfvar": return Call(Ident(name="idf"), [], var=ListN([H(e[1])]))
        if t == "hkwvar": return Call(Ident(name="h"), [H(e[1])], kwvar=DictN([(Lit(), H(e[2]))]))
        if t == "lenl": return Call(builtin("len"), [ListN([H(e[1]), H(e[2])])])
        if t == "lent": return Call(builtin("len"), [TupleN([H(e[1]), H(e[2])])])
        if t == "index": return Call(ListN([H(e[1]), H(e[2])]), [Lit()], attr=False)
        if t == "real": return Attr(BinOp(H(e[1]), Lit()), name="real")
        if t == "rec2": return Attr(Record([Def("a", [H(e[1])], pub=1), Def("b", [H(e[2])], pub=1)]), name="a")
        if t == "callk": return Call(Ident(name=e[1]), [H(e[2])])
        if t == "callr": return Call(Ident(name=e[1]), [H(e[2])], cp=1)
        if t == "callg": return Call(Ident(name=e[1]), [H(e[2])], cp=1 if e[1].endswith("!") else 0)
        raise AssertionError(e)

    # ---- statements: returns (lines, hir)
    def block(self, b, ind, ns, last=None):
        """lines of the statements + final expression line; hir chunks"""
        saved = dict(self.mutns)
        try:
            return self.block_(b, ind, ns, last)
        finally:
            self.mutns = saved if last is None else self.mutns     # definitions of a nested block end with it

    def block_(self, b, ind, ns, last=None):
        stmts, fin = b
        lines, chunks = [], []
        for s in stmts:
            ls, h = self.stmt(s, ind, ns)
            lines += ls
            chunks.append(h)
        if last == "def":
            lines.append(" " * ind + "c_fin = " + self.pr(fin))
            chunks.append(DefE(Def("c_fin", [self.hir(fin, None)])))
        else:
            lines.append(" " * ind + self.pr(fin))
            chunks.append(self.hir(fin, None))
        return lines, chunks

    def stmt(self, s, ind, ns):
        t = s[0]
        sp = " " * ind
        H = lambda x: self.hir(x, None)
        if t == "print":
            return [sp + "print!(%s)" % self.pr(s[1])], Call(builtin("print!"), [H(s[1])], cp=1)
        if t == "push":
            return [sp + "l.push! str(%s)" % self.pr(s[1])], \
                Call(Ident(mut=1, ns=NS, name="l"), [Call(builtin("str"), [H(s[1])])], attr=True)
        if t == "inc":
            return [sp + "%s.inc!()" % s[1]], Call(Ident(mut=1, ns=self.mutns[s[1]], name=s[1]), [], attr=True)
        if t == "def":
            ls, ch = self.block(s[2], ind + 4, ns + "::" + s[1])
            return [sp + s[1] + " ="] + ls, DefE(Def(s[1], ch))
        if t == "coll":
            es = [self.pr(x) for x in s[3]]
            hs = [H(x) for x in s[3]]
            if s[2] == "list": return [sp + "%s = [%s]" % (s[1], ", ".join(es))], DefE(Def(s[1], [ListN(hs)]))
            if s[2] == "tuple": return [sp + "%s = (%s)" % (s[1], ", ".join(es))], DefE(Def(s[1], [TupleN(hs)]))
            if s[2] == "dict": return [sp + "%s = {%s: %s}" % (s[1], es[0], es[1])], DefE(Def(s[1], [DictN([(hs[0], hs[1])])]))
            return [sp + "%s = {%s}" % (s[1], es[0])], DefE(Def(s[1], [SetN(hs)]))
        if t == "rec":
            return [sp + "%s = {.a = %s; .b = %s}" % (s[1], self.pr(s[2][0]), self.pr(s[2][1]))], \
                DefE(Def(s[1], [Record([Def("a", [H(s[2][0])], pub=1), Def("b", [H(s[2][1])], pub=1)])]))
        if t == "if":
            l1, c1 = self.block(s[3], ind + 8, ns + "::" + s[1] + "::<lambda_0>")
            l2, c2 = self.block(s[4], ind + 8, ns + "::" + s[1] + "::<lambda_0>")
            lines = [sp + "%s = if 0 == %s:" % (s[1], self.pr(s[2])), sp + "    do:"] + l1 + [sp + "    do:"] + l2
            h = Call(builtin("if"), [BinOp(Lit(), H(s[2])), Lambda(0, Params(), c1), Lambda(0, Params(), c2)])
            return lines, DefE(Def(s[1], [h]))
        if t == "match":
            lines = [sp + "%s = match 0 + %s:" % (s[1], self.pr(s[2])), sp + "    0 -> " + self.pr(s[3]), sp + "    _ -> " + self.pr(s[4])]
            h = Call(builtin("match"), [BinOp(Lit(), H(s[2])), Lambda(0, Params([Param(1)]), [H(s[3])]), Lambda(0, Params([Param(0)]), [H(s[4])])])
            return lines, DefE(Def(s[1], [h]))
        if t == "for":
            lines, chunks = [], []
            saved = dict(self.mutns)
            for x in s[3]:
                ls, h = self.stmt(x, ind + 4, ns + "::<lambda_0>")
                lines += ls
                chunks.append(h)
            self.mutns = saved
            return [sp + "for! [%s, %s], j =>" % (self.pr(s[1]), self.pr(s[2]))] + lines, \
                Call(builtin("for!"), [ListN([H(s[1]), H(s[2])]), Lambda(1, Params([Param(1)]), chunks)], cp=1)
        if t in ("func", "proc"):
            nm, dflt, b = s[1], s[2], s[3]
            ls, ch = self.block(b, ind + 4, ns + "::" + nm)
            sig = "%s(y: Int%s) =" % (nm, "" if dflt is None else ", z := " + self.pr(dflt))
            ps = Params([Param(1)], [] if dflt is None else [(Param(1), H(dflt))])
            return [sp + sig] + ls, DefE(Def(nm, ch, proc=1 if t == "proc" else 0, params=ps))
        if t == "plam":
            ls, ch = self.block(s[2], ind + 4, ns + "::" + s[1] + "::<lambda_0>")
            return [sp + "%s = (y: Int) =>" % s[1]] + ls, DefE(Def(s[1], [Lambda(1, Params([Param(1)]), ch)], proc=1, ltp=1))
        if t == "flam":
            return [sp + "%s = (y: Int) -> %s" % (s[1], self.pr(s[2]))], DefE(Def(s[1], [Lambda(0, Params([Param(1)]), [H(s[2])])]))
        if t == "mut":
            init = H(s[2])                 # the initialiser still sees the shadowed outer variable
            self.mutns[s[1]] = ns
            return [sp + "%s = !%s" % (s[1], self.pr(s[2]))], DefE(Def(s[1], [Unary(init)]))
        raise AssertionError(s)


def render_case(body):
    """body: (stmts, final).  Returns (source, [(ctx, pub, name, chunks, first_line, last_line)])"""
    lines = PREAMBLE.rstrip("\n").split("\n")
    ctxs = []
    for ctx, head, name in ((0, "f(x: Int) =", "f"), (1, "p!(x: Int) =", "p!"), (2, None, "")):
        o = Out(ctx, NS)
        start = len(lines) + 1
        if head:
            ls, ch = o.block(rename(body, "abc"[ctx]), 4, NS + "::" + name)
            lines.append(head)
        else:
            ls, ch = o.block(rename(body, "abc"[ctx]), 0, NS, last="def")
        lines += ls
        ctxs.append((ctx, 0, name, ch, start, len(lines)))
    return "\n".join(lines) + "\n", ctxs


def rename(t, p):
    """prefix every generated name (they start with '_') with the context letter so the three copies do not clash"""
    if isinstance(t, str):
        return p + t if t.startswith("_") else t
    if isinstance(t, (tuple, list)):
        return type(t)(rename(x, p) for x in t)
    return t


# ------------------------------------------------------------------ normalisation of the dumped HIR
def sxs(x):
    return "".join(chr(c) for c in x)


def norm(e):
    """dumped expr -> comparable form: locations 0, names of accessors dropped, ns only for mutable accessors
    (the checker reads def_namespace only then), lambda ids normalised, guards dropped"""
    t = e[0]
    N = norm
    NL = lambda l: [norm(x) for x in l]
    if t == 0: return [0]
    # a parameter is never "touched" (the checker tests !is_parameter() first): its mutability flag is irrelevant
    # (the type checker may infer a `!` type for a defaulted parameter that is later passed to `!`)
    if t == 1: return [1, 0, e[2] if not e[3] else 0, e[3], e[4], normns(e[5]) if (e[2] and not e[3]) else "", ""]
    if t == 2: return [2, 0, e[2] if not e[3] else 0, e[3], e[4], normns(e[5]) if (e[2] and not e[3]) else "", N(e[6]), ""]
    if t == 3: return [3, 0, N(e[2]), e[3], e[4], e[5], e[6], NL(e[7]), NL(e[8]), NL(e[9]), NL(e[10])]
    if t == 4: return [4, 0, e[2], N(e[3]), N(e[4])]
    if t in (5, 19): return [t, N(e[1])]
    if t in (6, 9, 10, 21, 22, 24): return [t, NL(e[1])]
    if t == 7: return [7, N(e[1]), NL(e[2])]
    if t in (8, 11): return [t, N(e[1]), N(e[2])]
    if t == 12: return [12, [[N(k), N(v)] for k, v in e[1]]]
    if t == 14: return [14, [normdef(d) for d in e[1]]]
    if t == 15: return [15, e[1], normparams(e[2]), NL(e[3])]
    if t == 16: return [16, normdef(e[1])]
    if t == 17: return [17, e[1], sxs(e[2]), NL(e[3]), NL(e[4])]
    if t == 18: return [18, N(e[1]), NL(e[2])]
    if t == 20: return [20, N(e[1]), NL(e[2])]
    return [t]


def normns(ns):
    return re.sub(r"<lambda_\d+>", "<lambda_0>", sxs(ns))


def normparams(p):
    np_ = lambda q: [0, q[1], q[2], q[3]]
    return [[np_(q) for q in p[0]], [np_(q) for q in p[1]], [[np_(q), norm(e)] for q, e in p[2]], [np_(q) for q in p[3]], []]


def normdef(d):
    return [0, d[1], d[2], d[3], d[4], sxs(d[5]), [normparams(p) for p in d[6]], [norm(x) for x in d[7]], [norm(x) for x in d[8]], d[9]]


def strip_names(e):
    """predicted tree -> same comparable form (accessor names dropped, strings kept as python str)"""
    if isinstance(e, list):
        if e and e[0] == 1 and len(e) == 7:
            return e[:6] + [""]
        if e and e[0] == 2 and len(e) == 8:
            return e[:6] + [strip_names(e[6]), ""]
        return [strip_names(x) for x in e]
    return e


def loc_line(loc):
    if loc > 0:
        return loc // 10 ** 9
    if loc < 0:
        return (-loc) // 10 ** 6
    return 0


def height(e):
    if isinstance(e, list):
        return 1 + max([height(x) for x in e] + [0])
    return 0


# ------------------------------------------------------------------ running
def run_parallel(h, cases, workers=16):
    if len(cases) <= 8:
        return h.run(cases)
    chunk = min(60, max(4, (len(cases) + workers * 4 - 1) // (workers * 4)))
    parts = [cases[i:i + chunk] for i in range(0, len(cases), chunk)]

    def one(part):
        try:
            return h.run(part, timeout=2400)
        except subprocess.TimeoutExpired:
            raise FrameworkError("harness effects timed out on a batch of %d programs" % len(part))
    with concurrent.futures.ThreadPoolExecutor(max_workers=workers) as ex:
        outs = list(ex.map(one, parts))
    return [x for o in outs for x in o]


def canon_impl(res):
    """(status, [(class, loc, caused_by)])"""
    if res[0] in (-999, -997):
        return (-999, [])
    return (res[0], [(c, loc, sxs(by)) for c, loc, by, _msg in res[1]])


def canon_model(res):
    if res[0] == -999:
        return (-999, [])
    errs = [(c, loc, sxs(by)) for c, loc, by in res[1]]
    return (1 if errs else 0, errs)


def ctx_ranges_from_dump(hir):
    """for arbitrary sources (corpus, replay): every module-level subroutine definition is a context; the rest is ctx 2.
    returns [(ctx, pub, name, chunks(raw), first_line, last_line)]"""
    starts = []
    for e in hir:
        if e[0] == 16:
            starts.append(loc_line(e[1][0]))
    starts = sorted(s for s in starts if s > 0)
    out, top = [], []
    for e in hir:
        if e[0] == 16 and e[1][2] == 1 and e[1][3] == 0:
            d = e[1]
            s = loc_line(d[0])
            nxt = [x for x in starts if x > s]
            out.append((1 if d[1] else 0, d[4], sxs(d[5]), d[8], s, (nxt[0] - 1) if nxt else 10 ** 6))
        else:
            top.append(e)
    return out, top


def to_wire(e):
    """normalised/predicted tree (python str for strings) -> wire format"""
    return e


class Case:
    def __init__(self, src, ctxs=None, kind="gen", body=None):
        self.src = src
        self.ctxs = ctxs      # predicted contexts (generated cases) or None
        self.kind = kind
        self.body = body


def evaluate(ctx, h, model, cases):
    """runs implementation, model (on the dump), shape comparison and judge; returns list of result dicts"""
    impl = run_parallel(h, [[c.src] for c in cases])
    mcases, idx = [], []
    for k, (c, r) in enumerate(zip(cases, impl)):
        if r[0] in (0, 1):
            mcases.append([0, 0, NS, r[2]])
            idx.append(k)
    mres = model.run(mcases) if mcases else []
    mod = dict(zip(idx, mres))
    results = []
    jcases, jidx = [], []
    for k, (c, r) in enumerate(zip(cases, impl)):
        res = {"case": c, "impl": canon_impl(r), "model": None, "corr": None, "shape": None, "judge": [], "status": r[0]}
        results.append(res)
        if r[0] not in (0, 1):
            continue
        res["model"] = canon_model(mod[k])
        # the property does not talk about the order of diagnostics: compare as multisets, note order differences
        if (res["model"][0], sorted(res["model"][1])) != (res["impl"][0], sorted(res["impl"][1])):
            res["corr"] = {"impl": res["impl"], "model": res["model"]}
        elif res["model"] != res["impl"]:
            res["order"] = True
        hir = r[2]
        errlines = [loc_line(loc) for _c, loc, _by in res["impl"][1]]
        if c.ctxs is not None:
            # the generated (predicted) tree vs the lowered tree, context by context
            defs = {sxs(e[1][5]): e[1] for e in hir if e[0] == 16}
            npre = len(PREAMBLE.strip().split("\n"))
            for (cx, pub, name, chunks, a, b) in c.ctxs:
                if cx == 2:
                    got = [norm(e) for e in hir if e[0] != 16 or loc_line(e[1][0]) >= a]
                else:
                    got = [norm(x) for x in defs[name][8]] if name in defs else None
                want = strip_names(chunks)
                if got != want and res["shape"] is None:
                    res["shape"] = {"ctx": cx, "lowered": got, "generated": want}
            ctxs = [(cx, pub, name, strip_names(chunks), a, b) for (cx, pub, name, chunks, a, b) in c.ctxs]
        else:
            sub, top = ctx_ranges_from_dump(hir)
            ctxs = [(cx, pub, name, [norm(x) for x in chunks], a, b) for (cx, pub, name, chunks, a, b) in sub]
        for (cx, pub, name, chunks, a, b) in ctxs:
            accepted = not any(a <= ln <= b for ln in errlines)
            jcases.append([1, FUEL, NS, cx, pub, name, chunks, 1 if accepted else 0])
            jidx.append((k, cx, name, accepted))
    jres = model.run(jcases) if jcases else []
    for (k, cx, name, accepted), v in zip(jidx, jres):
        results[k]["judge"].append({"ctx": cx, "name": name, "accepted": accepted, "verdict": v})
    return results


VERDICT = {0: "ok", 1: "effect inside a function (the subroutine itself or a function nested in the body) accepted", 2: "quiet procedure / module-level body rejected with an effect error",
           3: "effect inside a function accepted (known class: default value of a nested procedure's parameter)", -1: "judge out of fuel"}


def gen_cases(ctx, n):
    out = []
    for k in range(n):
        g = Gen(ctx.rng, "_", ctx.rng.choice([1, 2, 2, 3, 3, 4]), ctx.rng.choice([0.0, 0.1, 0.25, 0.5]))
        body = g.block(empty_scope(), g.maxdepth, nst=ctx.rng.randint(1, 4))
        src, ctxs = render_case(body)
        out.append(Case(src, ctxs, "gen", body))
    return out


# ---- systematic placements: every effectful operation under every chain of wrappers
EFFECTS = [("q",), ("i",), ("reca",), "print", "push", "inc", "callr", "callg"]
WRAPPERS = ["block", "recfield", "recvar", "list", "tuple", "dictk", "dictv", "set", "arg", "kwarg", "varargs", "kwvar", "attrrecv",
            "binl", "binr", "neg", "ifcond", "ifthen", "ifelse", "matcharm", "matchscrut", "index", "funcbody", "procbody",
            "funcdflt", "procdflt", "plambody", "flambody", "forbody", "forlist", "mutinit", "bangblock", "bangvar", "bangmut"]


def placement(effect, chain, cnt=[0]):
    """returns body (stmts, final) with the effect wrapped by chain (outermost first)"""
    def fresh(k):
        cnt[0] += 1
        return "_%s%d" % (k, cnt[0])
    pre = []
    if effect == "print":
        v = fresh("v"); pre.append(("def", v, ([("print", ("x",))], ("lit",)))); e = ("var", v)
    elif effect == "push":
        v = fresh("v"); pre.append(("def", v, ([("push", ("x",))], ("lit",)))); e = ("var", v)
    elif effect == "inc":
        m = fresh("m"); v = fresh("v")
        pre.append(("mut", m, ("lit",))); pre.append(("def", v, ([("inc", m)], ("lit",)))); e = ("var", v)
    elif effect == "callr":
        rn = fresh("r") + "!"; pre.append(("proc", rn, None, ([("print", ("var", "y"))], ("var", "y")))); e = ("callr", rn, ("lit",))
    elif effect == "callg":
        g = fresh("g") + "!"; pre.append(("plam", g, ([("print", ("var", "y"))], ("var", "y")))); e = ("callg", g, ("lit",))
    else:
        e = ("bin", effect, ("lit",)) if effect != ("q",) else effect
    # statements that must be inside the innermost wrapper travel with the expression
    stm = pre
    for w in reversed(chain):
        v = fresh("v")
        if w == "block": stm, e = [("def", v, (stm, e))], ("var", v)
        elif w == "recfield": e = ("rec2", ("lit",), e)
        elif w == "recvar": r = fresh("r"); stm, e = stm + [("rec", r, [("lit",), e])], ("recattr", r)
        elif w == "list": stm, e = stm + [("coll", fresh("c"), "list", [("lit",), e])], ("lit",)
        elif w == "tuple": e = ("lent", ("lit",), e)
        elif w == "dictk": stm, e = stm + [("coll", fresh("c"), "dict", [e, ("lit",)])], ("lit",)
        elif w == "dictv": stm, e = stm + [("coll", fresh("c"), "dict", [("lit",), e])], ("lit",)
        elif w == "set": stm, e = stm + [("coll", fresh("c"), "set", [e])], ("lit",)
        elif w == "arg": e = ("h", e)
        elif w == "kwarg": e = ("hkw", ("lit",), e)
        elif w == "varargs": e = ("idfvar", e)
        elif w == "kwvar": e = ("hkwvar", ("lit",), e)
        elif w == "attrrecv": e = ("real", e)
        elif w == "binl": e = ("bin", e, ("lit",))
        elif w == "binr": e = ("bin", ("lit",), e)
        elif w == "neg": e = ("neg", e)
        elif w == "ifcond": stm, e = stm + [("if", v, e, ([], ("lit",)), ([], ("lit",)))], ("var", v)
        elif w == "ifthen": stm, e = [("if", v, ("x",), (stm, e), ([], ("lit",)))], ("var", v)
        elif w == "ifelse": stm, e = [("if", v, ("x",), ([], ("lit",)), (stm, e))], ("var", v)
        elif w == "matcharm": stm, e = stm + [("match", v, ("x",), ("lit",), e)], ("var", v)
        elif w == "matchscrut": stm, e = stm + [("match", v, e, ("lit",), ("lit",))], ("var", v)
        elif w == "index": e = ("index", e, ("lit",))
        elif w == "funcbody": k = fresh("k"); stm, e = [("func", k, None, (stm, e))], ("callk", k, ("lit",))
        elif w == "procbody": k = fresh("r") + "!"; stm, e = [("proc", k, None, (stm, e))], ("lit",)
        elif w == "funcdflt": k = fresh("k"); stm, e = stm + [("func", k, e, ([], ("var", "y")))], ("callk", k, ("lit",))
        elif w == "procdflt": k = fresh("r") + "!"; stm, e = stm + [("proc", k, e, ([], ("var", "y")))], ("lit",)
        elif w == "plambody": g = fresh("g") + "!"; stm, e = [("plam", g, (stm, e))], ("lit",)
        elif w == "flambody": g = fresh("g"); stm, e = stm + [("flam", g, e)], ("callg", g, ("lit",))
        elif w == "forbody": stm, e = [("for", ("lit",), ("lit",), stm + [("print", e)])], ("lit",)
        elif w == "forlist": stm, e = stm + [("for", ("lit",), e, [("print", ("lit",))])], ("lit",)
        elif w == "mutinit": m = fresh("m"); stm, e = stm + [("mut", m, e)], ("lit",)
        elif w == "bangblock": vb = fresh("v") + "!"; stm, e = [("def", vb, (stm, e))], ("var", vb)
        elif w == "bangvar": vb = fresh("v") + "!"; stm, e = stm + [("def", vb, ([], e))], ("var", vb)
        elif w == "bangmut": m = fresh("m") + "!"; stm, e = stm + [("mut", m, e)], ("lit",)
        else: raise AssertionError(w)
    return (stm, e)


def placement_cases(depth, rng=None, sample=None):
    import itertools
    chains = []
    for d in range(1, depth + 1):
        chains += list(itertools.product(WRAPPERS, repeat=d))
    combos = [(ef, ch) for ef in EFFECTS for ch in chains]
    if sample is not None and len(combos) > sample:
        combos = rng.sample(combos, sample)
    out = []
    for ef, ch in combos:
        body = placement(ef, ch)
        src, ctxs = render_case(body)
        c = Case(src, ctxs, "placement", body)
        c.label = "%s under %s" % (ef if isinstance(ef, str) else ef[0], "/".join(ch))
        out.append(c)
    return out


# ---- systematic nesting: a subroutine defined inside variable-definition blocks reads a mutable object of each enclosing level
def nesting_cases(cnt=[0]):
    """levels: 1..2 enclosing variable blocks (plain or `!`-named), optionally inside an enclosing function / procedure;
    a mutable object is defined at every level; the innermost subroutine (function / procedure / function lambda) reads the
    mutable of level j (or the module-level i); its name is unrelated to, a string prefix of, or an extension of the name of
    the enclosing block at level r"""
    import itertools
    out = []
    for nblocks, bang, outer, inner, rel, read in itertools.product((1, 2), (0, 1), ("none", "func", "proc"), ("func", "proc", "flam"),
                                                                 ("none", "pfx1", "ext1", "pfx2", "ext2"), (0, 1, 2, 3)):
        if rel.endswith("2") and nblocks < 2: continue
        if read == 2 and nblocks < 2: continue
        if read == 3 and outer == "none": continue
        cnt[0] += 1
        u = "_n%d" % cnt[0]
        base = [u + "b1", u + "b2"]
        kname = u + "k"
        names = [b + ("!" if bang else "") for b in base]
        if rel.startswith("pfx"):
            j = int(rel[-1]) - 1
            names[j] = kname + "er" + ("!" if bang else "")       # the subroutine's name is a prefix of the block's name
        elif rel.startswith("ext"):
            j = int(rel[-1]) - 1
            kname = base[j] + "s"                                    # ... or extends it
        if inner == "proc":
            kname += "!"
        muts = [u + "m0", u + "m1", u + "m2"]                        # m0: in the outer subroutine, m1/m2: in the blocks
        rd = {0: ("i",), 1: ("mread", muts[1]), 2: ("mread", muts[2]), 3: ("mread", muts[0])}[read]
        if inner == "func":
            sub = [("func", kname, None, ([], rd))]; use = ("callk", kname, ("lit",))
        elif inner == "proc":
            sub = [("proc", kname, None, ([], rd))]; use = ("lit",)
        else:
            sub = [("flam", kname, rd)]; use = ("callg", kname, ("lit",))
        if nblocks == 2:
            blk = ("def", names[0], ([("mut", muts[1], ("lit",)),
                                      ("def", names[1], ([("mut", muts[2], ("lit",))] + sub, use))], ("var", names[1])))
        else:
            blk = ("def", names[0], ([("mut", muts[1], ("lit",))] + sub, use))
        if outer == "none":
            body = ([blk], ("var", names[0]))
        else:
            on = u + "o" + ("!" if outer == "proc" else "")
            body = ([(outer, on, None, ([("mut", muts[0], ("lit",)), blk], ("var", names[0])))], ("lit",))
        src, ctxs = render_case(body)
        c = Case(src, ctxs, "nesting", body)
        c.label = "blocks=%d bang=%d outer=%s inner=%s name=%s read=level%d" % (nblocks, bang, outer, inner, rel, read)
        out.append(c)
    return out


def corpus_cases():
    out = []
    d = os.path.join(VERIF, "corpus", "C22")
    if os.path.isdir(d):
        for f in sorted(os.listdir(d)):
            if f.endswith(".json"):
                j = json.load(open(os.path.join(d, f)))
                c = Case(j["src"], None, "corpus")
                c.label = f
                c.expect = j.get("expect")
                out.append(c)
    return out


def run(ctx):
    ctx.cov["rule"] = ("generated subroutine bodies (statements: local blocks, collections, records, if/match, for!, nested functions / "
                       "procedures / lambdas with and without default values, mutable locals; Int expressions: calls with positional, "
                       "keyword, *args and **kwargs arguments, attribute access, indexing, operators) with effectful operations "
                       "(print!, l.push!, m.inc!(), user procedure q!(), nested procedure / procedural lambda call, read of outer "
                       "mutable i / rec.a / local mutable) placed by a seeded PRNG, each body rendered as function, procedure and "
                       "module-level code in one file; plus every effect under every wrapper chain (depth 1 quick, depth 2 thorough). "
                       "non-trivial = distinct source whose lowering succeeded (the effect checker ran)")
    ctx.cov["trusted_base"] = ["Coq 8.16.1 kernel", "extraction (ExtrOcamlBasic only) + extract/driver.ml",
                               "harness/effects/src/main.rs (runs HIRBuilder::build, abstracts hir::Expr to the mini-HIR; the boolean "
                               "attributes are read from the type checker's annotations)",
                               "checks/c22.py pretty-printer and shape prediction (validated on every case against the lowered HIR)"]
    ctx.assumptions = ["namespaces do not start with '.' or ':' (good_root; the module namespace is \"<module>\")",
                       "lowering never produces ReDef/Code/Compound/Dummy nodes with sub-expressions for Erg source (checked on every dump)",
                       "constructor_destructor_check's type-level condition does not hold in generated programs (no class with __init__!/__del__!)"]
    proof = ctx.coq(["Effects/Props_C22.v"])
    h = Harness(ctx, "effects", env=ctx.erg_env())
    model = ctx.model("Effects")
    cases = corpus_cases()
    cases += placement_cases(1)
    nest = nesting_cases()
    cases += nest if ctx.thorough else ctx.rng.sample(nest, 150)
    if ctx.thorough:
        cases += placement_cases(2, ctx.rng, sample=2500)
        ctx.cov["exhaustive_small_scope"] = "every effect (%d) under every wrapper (%d) at depth 1; %d sampled chains of depth 2" % (
            len(EFFECTS), len(WRAPPERS), 2500)
    cases += gen_cases(ctx, ctx.scale(500, 6000))
    ctx.log("%d cases" % len(cases))
    results = evaluate(ctx, h, model, cases)
    report(ctx, proof, h, model, results)


def report(ctx, proof, h, model, results):
    n_corr = n_shape = n_invalid = n_opaque = 0
    first_corr = first_shape = None
    viol = []
    known = {k["class"]: k for k in ctx.known() if "class" in k}
    for r in results:
        c = r["case"]
        ctx.count("kind:" + c.kind)
        st = r["status"]
        ctx.count("status:%s" % {0: "accepted", 1: "effect errors", 2: "lowering failed", 3: "syntax"}.get(st, "panic/%s" % st))
        ok = st in (0, 1)
        ctx.case(c.src, nontrivial=ok, sample={"src": c.src} if c.kind == "gen" else None)
        if not ok:
            n_invalid += 1
            continue
        for cls, _loc, _by in r["impl"][1]:
            ctx.count("error:%s" % {0: "has_effect", 1: "ctor/dtor", 2: "proc_assign", 3: "touch_mut"}.get(cls, cls))
        if r.get("order"):
            ctx.count("same errors as the model, different order")
        if r["corr"]:
            n_corr += 1
            first_corr = first_corr or {"src": c.src, "detail": r["corr"]}
        if r["shape"]:
            n_shape += 1
            first_shape = first_shape or {"src": c.src, "detail": r["shape"]}
        for j in r["judge"]:
            ctx.count("ctx%d:%s" % (j["ctx"], "accepted" if j["accepted"] else "rejected"))
            v = j["verdict"]
            if v == 3:
                ctx.count("known-class observations")
                if "Known_C22" in known:
                    ctx.known_finding(known["Known_C22"])
                else:
                    viol.append((r, j, VERDICT[3]))
            elif v != 0:
                viol.append((r, j, VERDICT.get(v, str(v))))
        exp = getattr(c, "expect", None)
        if exp is not None:
            got = {"%d:%s" % (j["ctx"], j["name"]): j["accepted"] for j in r["judge"]}
            for key, acc in exp.items():
                if got.get(key) != acc:
                    viol.append((r, {"ctx": key, "verdict": "regression"},
                                 "corpus case %s: %s expected %s" % (c.label, key, "accepted" if acc else "rejected")))
    if "Known_C22" in known and not ctx.known_lines:
        ctx.notes.append("NOTE stale-known-finding: no generated or corpus program reproduced class Known_C22")
        print("NOTE stale-known-finding property=C22 class=Known_C22")
    ctx.cov["lowering_failed"] = n_invalid
    ctx.cov["shape_mismatches"] = n_shape
    ctx.cov["model_disagreements"] = n_corr
    for r, j, what in viol[:3]:
        c = r["case"]
        src = shrink_source(ctx, h, model, c, j) if c.kind != "corpus" else c.src
        ctx.violation("failing-input", "%s (context %s)" % (what, j.get("ctx")), case={"src": src, "label": getattr(c, "label", None)},
                      impl=r["impl"], model=r["model"], judge=j)
    if not viol and (n_corr or n_shape or not proof.ok):
        what = []
        if not proof.ok:
            what.append("theorem(s) no longer check: " + proof.summary())
        if n_corr:
            what.append("%d programs on which the extracted model and SideEffectChecker report different errors" % n_corr)
        if n_shape:
            what.append("%d programs whose lowered HIR does not have the generated shape" % n_shape)
        ctx.violation("broken-correspondence" if (n_corr or n_shape) else "broken-theorem", "; ".join(what),
                      case=first_corr or first_shape, theorem=proof.summary() or None, no_input=True)


def shrink_source(ctx, h, model, c, j):
    """drop statements of the body while the same verdict persists"""
    if c.body is None:
        return c.src
    stmts, fin = c.body

    def fails(sub):
        try:
            src, ctxs = render_case((sub, fin))
        except Exception:
            return False
        r = evaluate(ctx, h, model, [Case(src, ctxs, "shrink", (sub, fin))])[0]
        return any(x["ctx"] == j.get("ctx") and x["verdict"] == j.get("verdict") for x in r["judge"])
    try:
        small = shrink_list(stmts, fails, budget=40) if len(stmts) > 1 else stmts
        return render_case((small, fin))[0]
    except Exception:
        return c.src


def replay(ctx, path):
    r = json.load(open(path))
    h = Harness(ctx, "effects", env=ctx.erg_env())
    model = ctx.model("Effects")
    src = r["case"]["src"]
    res = evaluate(ctx, h, model, [Case(src, None, "corpus")])[0]
    print(src)
    print("impl  :", res["impl"])
    print("model :", res["model"])
    for j in res["judge"]:
        print("judge : ctx=%s %s accepted=%s -> %s" % (j["ctx"], j["name"], j["accepted"], VERDICT.get(j["verdict"], j["verdict"])))
        if j["verdict"] in (1, 2):
            ctx.violation("failing-input", VERDICT[j["verdict"]], case={"src": src}, impl=res["impl"], model=res["model"], judge=j)
