"""C13 — every supported Python target (3.7 .. 3.11) runs the program identically; `erg run` uses the selected interpreter.

proof:            coq/Versions/Props_C13.v: compile_v_correct for all five targets over the version branches of codegen.rs
                  (coq/Versions/Model.v: compile_v) and the matching CPython evaluation loops (exec_v), hence
                  all_targets_agree_partial / every_target_like_default_partial; the bytes (emitted_numbers_are_cpythons
                  ... over the regenerated tables gen/Opcodes.v + gen/CPython.v); run_uses_selected_interpreter with
                  ..._nofix_refuted; far_jump_refuted (known class).  PARTIAL: expression/statement fragment.
tie (bytecode):   for every generated fragment program and every target v: `erg --py-command <python v> compile`, the .pyc
                  decoded by interpreter v (pylib/c13_dump.py) vs the extracted compile_v (code units, constants, names)
tie (behaviour):  every generated program (whole CoreErg generator: control flow, functions, lists ...) x every target:
                  compiled for v, run by interpreter v: stdout + exit status = the default target's = the Python oracle's
tie (selection):  `erg --py-command P run f.er` for every installed P with a program that prints sys.version_info.minor,
                  and a sample of generated programs through `erg --py-command P run`
judge:            Spec.judge_targets / Spec.judge_interpreter (extracted)
"""
import shutil
import subprocess
from concurrent.futures import ThreadPoolExecutor

from lib.vplib import *
from pylib import coreerg_gen as G
from pylib import coreerg_run as R

REGISTRY = dict(
    category="proof",
    text="proof (partial). Coq model of the version branches of codegen.rs for all five targets 3.7-3.11 (compile_v: "
         "argument-less BINARY_x vs BINARY_OP+cache, COMPARE_OP with/without cache entries, CALL_FUNCTION vs "
         "PUSH_NULL/PRECALL/CALL, short-circuit jump arguments absolute-in-bytes / absolute-in-instructions / relative, "
         "EXTENDED_ARG) and of the five CPython evaluation loops for these instructions (exec_v), with compile_v_correct "
         "per version => all_targets_agree_partial: for the expression/statement fragment (all literal values, any depth "
         "and length) the bytecode for v run by interpreter v yields the program's meaning, hence the same under every "
         "target. Opcode numbers: every opcode the model writes exists in the target and carries CPython's number "
         "(finite tables regenerated from opcode*.rs / codegen.rs / dis.opmap). Interpreter selection: "
         "run_uses_selected_interpreter (+ refutation of the code before the repair). The rest of the language is tied by "
         "the differential run only: every generated CoreErg program compiled for each target and run under that target's "
         "interpreter must print and exit exactly as under 3.11 and as the independent Python oracle.",
    note="Trusted: Coq kernel, extraction + generic OCaml driver, pylib/coreerg_gen.py printers, pylib/c13_dump.py "
         "(marshal/dis of each interpreter), the translators of checks/c16.py for the tables. Hypotheses of the theorems: "
         "the code generator model does not stop (excludes the known class far-jump: fill_jump's 16-bit argument), wrapped "
         "values fit their runtime class, constants unmarshal faithfully (C15). Not modelled: control flow, functions, "
         "lists, classes, the prelude (its length and pools are read from the .pyc), line table / stack size (C14). "
         "3.12 / 3.13 are outside the supported range (see notes).",
    technique="Coq compiler-correctness proof per target version over hand models of codegen.rs's version branches and the "
              "CPython 3.7-3.11 loops + per-version bytecode correspondence + cross-version behavioural differential "
              "with extracted judge",
    design="DESIGN.md §4 C13, C01, CoreErg")

VERSIONS = ["3.7", "3.8", "3.9", "3.10", "3.11"]
DEFAULT = "3.11"
MINOR = {v: int(v.split(".")[1]) for v in VERSIONS}
FUEL = 3000
C01_CLASSES = ["known_marshal_nat", "known_nat_cast", "known_enum_arith", "known_quote_ambiguity"]
CLS_NAME = {1: "Nat", 2: "Int", 3: "Float", 4: "Str", 5: "Bool", 6: "List"}
VERSION_PROGRAM = 'sys = pyimport "sys"\nprint! sys.version_info.minor\n'
REJECTED, CRASHED = -1, -2          # pseudo status of an observation: erg did not produce bytecode for the target


# ------------------------------------------------------------------ running erg for a target
class Obs:
    """what one target shows for one program"""
    __slots__ = ("accepted", "crashed", "diag", "obs", "pyc", "stderr")

    def __init__(self):
        self.accepted, self.crashed, self.diag, self.obs, self.pyc, self.stderr = False, False, "", None, None, ""

    def status_lines(self):
        """(status code, [line code points]) as Spec.observation; None when stdout is not a sequence of lines"""
        if not self.accepted:
            return (CRASHED if self.crashed else REJECTED, [])
        out, rc, exc = self.obs
        status = 0 if rc == 0 else next((k for k, v in R.EXN.items() if v == exc and k > 0), 98)
        lines = out.split("\n")
        if lines and lines[-1] == "":
            lines = lines[:-1]
        else:
            lines = lines[:-1] + [lines[-1] + "\u0000<no newline>"] if out else []
        return (status, [[ord(ch) for ch in l] for l in lines])

    def summary(self):
        if not self.accepted:
            return {"compiled": False, "crashed": self.crashed, "diagnostics": self.diag[-600:]}
        return {"compiled": True, "stdout": self.obs[0][-400:], "exit": self.obs[1], "exception": self.obs[2], "stderr": self.stderr[-300:]}


def compile_cmd(erg, ver, src, outdir, how="command"):
    if how == "magic":
        return [erg, "--py-magic-num", str(MAGIC[ver]), "compile", "--output-dir", outdir, src]
    return [erg, "--py-command", PY_VERSIONS[ver], "compile", "--output-dir", outdir, src]


MAGIC = {}


def target_one(erg, env, work, name, src_text, ver, how="command"):
    o = Obs()
    er = os.path.join(work, name + ".er")
    if not os.path.exists(er):
        with open(er, "w", encoding="utf-8") as f:
            f.write(src_text)
    outdir = os.path.join(work, "t" + ver + ("m" if how == "magic" else ""))
    os.makedirs(outdir, exist_ok=True)
    pyc = os.path.join(outdir, name + ".pyc")
    if os.path.exists(pyc):
        os.remove(pyc)
    p = subprocess.run(compile_cmd(erg, ver, er, outdir, how), env=env, capture_output=True, timeout=R.TIMEOUT, cwd=work,
                       stdin=subprocess.DEVNULL)
    txt = R.ANSI.sub("", (p.stdout + p.stderr).decode("utf-8", "replace"))
    o.diag = txt[-3000:]
    if p.returncode != 0 or not os.path.exists(pyc):
        o.crashed = ("panicked" in txt) or ("bug of Erg" in txt) or ("this is a bug" in txt) or p.returncode < 0 or p.returncode == 101
        return o
    o.accepted, o.pyc = True, pyc
    q = subprocess.run([PY_VERSIONS[ver], pyc], env=env, capture_output=True, timeout=R.TIMEOUT, cwd=work, stdin=subprocess.DEVNULL)
    err = q.stderr.decode("utf-8", "replace")
    o.stderr = err[-1500:]
    o.obs = (q.stdout.decode("utf-8", "replace"), q.returncode, R.exc_class(err) if q.returncode else "")
    return o


def erg_run_one(erg, env, work, name, src_text, ver):
    """`erg --py-command P run f.er`: (stdout with ANSI stripped, rc, exception class, stderr tail)"""
    er = os.path.join(work, name + "_run.er")
    with open(er, "w", encoding="utf-8") as f:
        f.write(src_text)
    p = subprocess.run([erg, "--py-command", PY_VERSIONS[ver], "run", er], env=env, capture_output=True, timeout=R.TIMEOUT,
                       cwd=work, stdin=subprocess.DEVNULL)
    err = R.ANSI.sub("", p.stderr.decode("utf-8", "replace"))
    return (R.ANSI.sub("", p.stdout.decode("utf-8", "replace")), p.returncode, R.exc_class(err) if p.returncode else "", err[-800:])


class Case:
    def __init__(self, kind, prog, name=None):
        self.kind, self.prog, self.name = kind, prog, name
        self.sx = G.to_sx(prog)
        self.erg_src = G.to_erg(prog)
        self.py_src = G.to_python(prog)
        self.t = {}              # version -> Obs
        self.oracle = self.model = self.flags = None
        self.verdict = None      # (ok, [differing minors])

    def as_json(self, versions=None):
        return {"kind": self.kind, "erg": self.erg_src, "python_oracle": self.py_src, "sx": self.sx,
                "versions": versions or VERSIONS,
                "command_lines": ["erg --py-command %s compile f.er && %s f.pyc" % (PY_VERSIONS[v], PY_VERSIONS[v]) for v in (versions or VERSIONS)]}


class Runner:
    def __init__(self, ctx):
        self.ctx = ctx
        self.erg = ctx.erg_bin()
        self.env = R._env(ctx.erg_env())
        self.vmodel = ctx.model("Versions")
        self.cmodel = ctx.model("CoreErg")
        self.work = os.path.join(CACHE, "tmp", "c13-%d" % os.getpid())
        shutil.rmtree(self.work, ignore_errors=True)
        os.makedirs(self.work, exist_ok=True)
        self.n = 0
        self.tables = {}
        for v in VERSIONS:
            p = sh([PY_VERSIONS[v], os.path.join(VERIF, "pylib", "c13_dump.py"), "tables"], timeout=120)
            if p.returncode != 0:
                raise FrameworkError("interpreter %s cannot be probed: %s" % (v, p.stderr[-500:]))
            t = json.loads(p.stdout)
            if t["version"] != [3, MINOR[v]]:
                raise FrameworkError("interpreter %s reports version %s" % (PY_VERSIONS[v], t["version"]))
            t["opname"] = {n: k for k, n in t["opmap"].items()}
            self.tables[v] = t
            m = sh([PY_VERSIONS[v], "-c", "import importlib.util as u;print(int.from_bytes(u.MAGIC_NUMBER[:2],'little'))"], timeout=60)
            MAGIC[v] = int(m.stdout)

    def close(self):
        shutil.rmtree(self.work, ignore_errors=True)

    def observe(self, cases, versions=VERSIONS, oracle=True):
        names = []
        for c in cases:
            self.n += 1
            names.append("p%d" % self.n)
        jobs = [(c, n, v) for c, n in zip(cases, names) for v in versions]
        for c, n in zip(cases, names):
            with open(os.path.join(self.work, n + ".er"), "w", encoding="utf-8") as f:
                f.write(c.erg_src)
        with ThreadPoolExecutor(16) as ex:
            res = list(ex.map(lambda j: target_one(self.erg, self.env, self.work, j[1], j[0].erg_src, j[2]), jobs))
        for (c, n, v), o in zip(jobs, res):
            c.t[v] = o
        if oracle:
            oracles = R.run_oracle(self.work, [(n, c.py_src) for n, c in zip(names, cases)])
            models = R.run_model(self.cmodel, [c.prog for c in cases], fuel=FUEL)
            flags = self.cmodel.run([[3, c.sx] for c in cases])
            for c, o, m, f in zip(cases, oracles, models, flags):
                c.oracle, c.model, c.flags = o, m, f
        return cases

    def judge(self, c, versions=VERSIONS):
        """extracted Spec.judge_targets: every target's observation equals the default target's"""
        d = c.t[DEFAULT].status_lines()
        others = [[MINOR[v], list(c.t[v].status_lines())] for v in versions if v != DEFAULT and v in c.t]
        r = self.vmodel.run([[4, list(d), others]])[0]
        c.verdict = (r[0] == 1, r[1])
        return c.verdict

    def fails_for(self, versions, seconds):
        deadline = time.time() + seconds         # shrinking is bounded in wall time (each probe = two compilations)

        def fails(prog):
            if time.time() > deadline:
                return False
            c = Case("shrink", prog)
            self.observe([c], versions=sorted(set(versions + [DEFAULT]), key=VERSIONS.index), oracle=False)
            if not c.t[DEFAULT].accepted:
                return False
            return not self.judge(c, versions=versions + [DEFAULT])[0]
        return fails


# ------------------------------------------------------------------ bytecode tie helpers
def canon_name(n):
    if n.startswith("::"):
        n = n[2:]
    return re.sub(r"_L\d+(_C\d+)?$", "", n)


def split_prelude(d, tab):
    """index of the first unit after the prelude (just after the first IMPORT_STAR), prelude consts and names"""
    units = d["units"]
    opname = tab["opname"]
    ext_op = tab["opmap"]["EXTENDED_ARG"]
    end = None
    for i, (op, a) in enumerate(units):
        if opname.get(op) == "IMPORT_STAR":
            end = i + 1
            break
    if end is None:
        raise TieBroken("no IMPORT_STAR in the module code: the prelude emitted by load_prelude changed shape")
    maxc = maxn = -1
    ext = 0
    for op, a in units[:end]:
        if op == ext_op:
            ext = (ext << 8) | a
            continue
        arg, ext = (ext << 8) | a, 0
        name = opname.get(op, "")
        if name in ("LOAD_CONST", "KW_NAMES"):
            maxc = max(maxc, arg)
        elif name in ("LOAD_NAME", "STORE_NAME", "STORE_GLOBAL", "LOAD_GLOBAL", "IMPORT_NAME", "IMPORT_FROM", "LOAD_METHOD", "LOAD_ATTR"):
            maxn = max(maxn, arg)
    return end, d["consts"][:maxc + 1], d["names"][:maxn + 1]


def enc_pre_consts(pre):
    out = []
    for k, c in enumerate(pre):
        if c[0] == "int":
            out.append([0, c[1]] if c[1] >= 0 else [1, c[1]])
        elif c[0] == "str":
            out.append([3, c[1]])
        else:
            out.append([6, k])
    return out


def dec_model_const(c, pre):
    k = c[0]
    if k in (0, 1):
        return ["int", c[1]]
    if k == 2:
        return ["float", c[1]]
    if k == 3:
        return ["str", "".join(chr(x) for x in c[1])]
    if k == 4:
        return ["bool", c[1]]
    if k == 5:
        return ["none"]
    return pre[c[1]]


def dec_model_name(n, pre):
    if n[0] == 0:
        return canon_name(pre[n[1]])
    if n[0] == 1:
        return "print"
    if n[0] == 2:
        return CLS_NAME.get(n[1], "?")
    return "v%d" % n[1]


def zero_noarg(units, tab):
    return [[op, (a if op >= tab["have_argument"] else 0)] for op, a in units]


def normalise(units, tab, base, minor):
    """canonical instruction list [[opname, arg]]: EXTENDED_ARG folded, CACHE/NOP/RESUME dropped, ignored argument bytes
    zeroed, jump arguments replaced by the canonical index of the target instruction.  [base] = unit index of units[0]
    in the code object (absolute jump targets of 3.7 - 3.10 refer to it)."""
    opname = tab["opname"]
    ext_op = tab["opmap"]["EXTENDED_ARG"]
    dropped = {tab["opmap"].get(n) for n in ("CACHE", "NOP", "RESUME")} - {None}
    instrs, ext = [], 0
    for i, (op, a) in enumerate(units):
        if op == ext_op:
            ext = (ext << 8) | a
            continue
        instrs.append((i, op, (ext << 8) | a))
        ext = 0
    kept = [x for x in instrs if x[1] not in dropped]

    def canon_index(unit):
        for n, (i, op, arg) in enumerate(kept):
            if i >= unit:
                return n
        return len(kept)
    out = []
    for (i, op, arg) in kept:
        name = opname.get(op, "OP%d" % op)
        if op in tab["hasjrel"]:
            d = arg if minor >= 10 else arg // 2
            tgt = i + 1 - d if "BACKWARD" in name else i + 1 + d
            out.append([name, canon_index(tgt)])
        elif op in tab["hasjabs"]:
            tgt = (arg if minor >= 10 else arg // 2) - base
            out.append([name, canon_index(tgt)])
        elif op < tab["have_argument"]:
            out.append([name, 0])
        else:
            out.append([name, arg])
    return out


def bytecode_tie(ctx, runner, cases, versions=VERSIONS):
    """per version: model of codegen.rs's branch for v vs the decoded .pyc, for the fragment programs erg compiled for v.
    returns (mismatches, statistics); mismatch = (case, version, what, model side, erg side)"""
    def unused_def(prog):
        used = set()
        G.walk_exprs(prog, lambda e: used.add(e.args[0]) if e.tag == G.E_VAR else None)
        return any(s.tag == G.S_DEF and s.args[0] not in used for s in prog)
    mism, stats = [], {}
    for v in versions:
        tab = runner.tables[v]
        # programs whose behaviour already differs are decided by the behavioural verdict
        frag = [c for c in cases if c.flags and c.flags[0] == 1 and v in c.t and c.t[v].accepted and c.t[v].obs == c.model]
        # erg removes unused definitions before code generation (optimisation, property C12): not part of this model
        todo = [c for c in frag if not unused_def(c.prog)]
        st = {"programs": len(todo), "byte-identical": 0, "equal-after-normalisation": 0, "mismatch": 0,
              "skipped (unused definition, removed by the optimiser)": len(frag) - len(todo)}
        stats[v] = st
        if not todo:
            continue
        p = sh([PY_VERSIONS[v], os.path.join(VERIF, "pylib", "c13_dump.py"), "dump"] + [c.t[v].pyc for c in todo], timeout=1200)
        if p.returncode != 0:
            raise FrameworkError("c13_dump under %s failed: %s" % (v, p.stderr[-2000:]))
        dumps = [json.loads(l) for l in p.stdout.splitlines() if l.strip()]
        reqs, pres = [], []
        for c, d in zip(todo, dumps):
            if "error" in d:
                mism.append((c, v, "the .pyc compiled for %s is not loadable by python%s: %s" % (v, v, d["error"]), None, None))
                pres.append(None)
                reqs.append([3, MINOR[v]])
                continue
            end, pc, pn = split_prelude(d, tab)
            pres.append((end, pc, pn))
            reqs.append([1, MINOR[v], end, enc_pre_consts(pc), [[0, k] for k in range(len(pn))], c.sx])
        outs = runner.vmodel.run(reqs)
        for c, d, pre, m in zip(todo, dumps, pres, outs):
            if pre is None:
                st["mismatch"] += 1
                continue
            end, pc, pn = pre
            if m[0] != 0:
                st["mismatch"] += 1
                mism.append((c, v, "the codegen model for %s stops with %s on a program erg compiled" % (v, m[0]), None, None))
                continue
            m_units = [[u[0], u[1]] for u in m[1]]
            r_units = d["units"][end:]
            m_consts = [dec_model_const(x, pc) for x in m[2]]
            m_names = [dec_model_name(x, pn) for x in m[3]]
            r_names = [canon_name(x) for x in d["names"]]
            what = None
            if zero_noarg(m_units, tab) == zero_noarg(r_units, tab):
                st["byte-identical"] += 1
            elif normalise(m_units, tab, end, MINOR[v]) == normalise(r_units, tab, end, MINOR[v]):
                st["equal-after-normalisation"] += 1
            else:
                a, b = normalise(m_units, tab, end, MINOR[v]), normalise(r_units, tab, end, MINOR[v])
                k = next((i for i in range(min(len(a), len(b))) if a[i] != b[i]), min(len(a), len(b)))
                what = "target %s, instruction %d: model %s, erg %s" % (v, k, a[k] if k < len(a) else "<end>", b[k] if k < len(b) else "<end>")
            if what is None and m_names != r_names:
                what = "target %s, name table: model %s, erg %s" % (v, m_names, r_names)
            if what is None and m_consts != d["consts"]:
                what = "target %s, constant pool: model %s, erg %s" % (v, m_consts, d["consts"])
            if what:
                st["mismatch"] += 1
                mism.append((c, v, what, {"units": m_units, "consts": m_consts, "names": m_names},
                             {"units": r_units, "consts": d["consts"], "names": r_names, "prelude_units": end}))
    return mism, stats


# ------------------------------------------------------------------ generation
def witness_programs():
    E, S = G.Ex, G.St
    nat = lambda n: E(G.E_LIT, [G.L_NAT, n], G.NAT)
    boo = lambda b: E(G.E_LIT, [G.L_BOOL, b], G.BOOL)
    var = lambda i, t: E(G.E_VAR, [i], t)
    cmp_ = lambda op, a, b: E(G.E_CMP, [op, a, b], G.BOOL, guard=True)
    out = []
    # and / or whose right operand is long (more than 255 bytes of code: the jump argument needs its EXTENDED_ARG byte
    # for the byte-addressed targets, and differs between bytes / instructions)
    long_rhs = cmp_(0, nat(1), nat(2))
    for k in range(12):
        long_rhs = E(G.E_LOGIC, [k % 2, long_rhs, cmp_(k % 6, E(G.E_BIN, [0, nat(k), nat(k + 1)], G.NAT), nat(2 * k))], G.BOOL, guard=True, sguard=True)
    out.append(("short-circuit-long-rhs", [S(G.S_DEF, [1, 0, nat(3)]),
                                           S(G.S_PRINT, [[E(G.E_LOGIC, [0, cmp_(4, var(1, G.NAT), nat(1)), long_rhs], G.BOOL, guard=True, sguard=True)]]),
                                           S(G.S_PRINT, [[E(G.E_LOGIC, [1, cmp_(0, var(1, G.NAT), nat(1)), long_rhs], G.BOOL, guard=True, sguard=True)]])]))
    out.append(("all-arith-ops", [S(G.S_DEF, [1, 0, nat(17)]), S(G.S_DEF, [2, 0, nat(5)]),
                                  S(G.S_PRINT, [[E(G.E_BIN, [op, var(1, G.NAT), var(2, G.NAT)], G.NAT if op in (0, 2, 4, 5) else (G.INT if op == 1 else G.FLOAT))
                                                 for op in (0, 1, 2, 3, 4, 5)]]),
                                  S(G.S_PRINT, [[cmp_(op, var(1, G.NAT), var(2, G.NAT)) for op in range(6)]])]))
    # exhaustive small scope: both short-circuit operators on every pair of truth values, nested both ways
    t, f = S(G.S_DEF, [1, 0, boo(1)]), S(G.S_DEF, [2, 0, boo(0)])
    bv = lambda i: var(i, G.BOOL)
    lg = lambda k, a, b: E(G.E_LOGIC, [k, a, b], G.BOOL)
    out.append(("truth-tables", [t, f,
                                 S(G.S_PRINT, [[lg(k, bv(a), bv(b)) for k in (0, 1) for a in (1, 2) for b in (1, 2)]]),
                                 S(G.S_PRINT, [[lg(k, lg(1 - k, bv(a), bv(b)), bv(c)) for k in (0, 1) for a in (1, 2) for b in (1, 2) for c in (1, 2)]]),
                                 S(G.S_PRINT, [[lg(k, bv(a), lg(1 - k, bv(b), bv(c))) for k in (0, 1) for a in (1, 2) for b in (1, 2) for c in (1, 2)]])]))
    out.append(("nat-2**31-2**63", [S(G.S_PRINT, [[nat(2**31), nat(2**63), nat(2**64 - 1)]])]))
    z, nz = G.f2bits(0.0), G.f2bits(-0.0)
    fl = lambda b: E(G.E_LIT, [G.L_FLOAT, b], G.FLOAT)
    out.append(("signed-zeros", [S(G.S_PRINT, [[fl(z)]]), S(G.S_PRINT, [[fl(nz)]]), S(G.S_PRINT, [[fl(nz), fl(z)]])]))
    return out


def gen_cases(ctx):
    rng = ctx.rng
    k = float(os.environ.get("C13_SCALE", "1"))     # < 1 shortens a run (mutation self-tests on a loaded machine)
    if k != 1:
        ctx.notes.append("run shortened by C13_SCALE=%s (fraction of the tier's generated programs)" % k)
    n_main, n_expr, n_err = int(k * ctx.scale(22, 700)), int(k * ctx.scale(26, 600)), int(k * ctx.scale(8, 200))
    cases = [Case("witness", prog, name) for name, prog in witness_programs()]
    for _ in range(n_main):
        level = rng.choice([1, 2, 2, 3, 3, 4, 4, 4])
        cases.append(Case("level%d" % level, G.Gen(rng, level=level, max_stmts=rng.choice([6, 10, 14])).program()))
    for _ in range(n_expr):
        cases.append(Case("expr-fragment", G.Gen(rng, expr_only=True, max_stmts=rng.choice([4, 8, 12])).program()))
    for _ in range(n_err):
        level = rng.choice([1, 2, 4])
        cases.append(Case("runtime-error", G.Gen(rng, level=level, runtime_error=True, max_stmts=8).program()))
    return cases


def far_jump_source():
    lines = ["a = True", "b = False"] + ["print!(" + ", ".join(["1"] * 100) + ")"] * 115 + ["print!(a and b)"]
    return "\n".join(lines) + "\n"


# ------------------------------------------------------------------ the check
def regen_tables(ctx):
    """gen/Opcodes.v and gen/CPython.v through the translators of C16 (same text: no churn)"""
    from checks import c16 as T
    enums = T.tr_enums()
    jl = T.tr_is_jump()
    dispatch, arms = T.tr_jump_arms(enums)
    sites, raw, _an = T.tr_emitted(enums)
    cpy = T.tr_cpython()
    ctx.write_gen("Opcodes", T.gen_opcodes(enums, jl, sites, raw, dispatch, arms))
    ctx.write_gen("CPython", T.gen_cpython(cpy))


def run(ctx):
    ctx.cov["rule"] = ("one case = one generated program (pylib/coreerg_gen.py, <= 15 statements: levels 1-4, a stream restricted "
                       "to the fragment of the theorems, a stream with one legitimate run-time error, fixed witnesses incl. an "
                       "and/or with a long right operand) compiled for and run under each of the five interpreters 3.7-3.11; "
                       "non-trivial = distinct program accepted for the default target whose meaning prints at least one line")
    ctx.cov["trusted_base"] = ["Coq 8.16.1 kernel", "extraction (ExtrOcamlBasic only) + extract/driver.ml",
                               "pylib/coreerg_gen.py (three printers), pylib/c13_dump.py (marshal + dis of each interpreter)",
                               "checks/c16.py translators of opcode*.rs / codegen.rs / dis.opmap (gen/Opcodes.v, gen/CPython.v)",
                               "the installed interpreters 3.7.16 3.8.18 3.9.18 3.10.13 3.11.7 as the machines"]
    ctx.assumptions = ["the theorems cover the expression/statement fragment of the models; the rest of the language is differential only",
                       "constants are unmarshalled to the value written in the source (property C15)",
                       "values passed to runtime classes fit them (checked per program by C01's extracted prog_wraps_okb)",
                       "the prelude (load_prelude) runs to completion and leaves an empty stack: its length and pools are read from the .pyc"]
    ctx.notes.append("outside the supported range (not part of the property): with --py-command python3.12 the REPL server segfaults inside "
                     "CPython on the first input; python3.13 is rejected at start-up ('unknown magic number')")
    regen_tables(ctx)
    proof = ctx.coq(["Versions/Props_C13.v"])
    runner = Runner(ctx)
    try:
        return run_with(ctx, runner, proof)
    finally:
        runner.close()


def c01_known_ids():
    p = os.path.join(VERIF, "known", "C01.json")
    if not os.path.exists(p):
        return set()
    return {k["id"] for k in json.load(open(p)) if k.get("status") == "finding"}


def selection_check(ctx, runner, sample):
    """`erg --py-command P run`: the version program for every P, and a sample of programs; returns list of failures"""
    bad = []
    jobs = [("ver", VERSION_PROGRAM, v, None) for v in VERSIONS]
    jobs += [("s%d" % i, c.erg_src, v, c) for i, c in enumerate(sample) for v in VERSIONS]
    with ThreadPoolExecutor(16) as ex:
        res = list(ex.map(lambda j: erg_run_one(runner.erg, runner.env, runner.work, "%s_%s" % (j[0], j[2].replace(".", "")), j[1], j[2]), jobs))
    n_ver = n_prog = 0
    for (name, src, v, c), r in zip(jobs, res):
        if c is None:
            n_ver += 1
            last = [l for l in r[0].splitlines() if l.strip()]
            reported = int(last[-1]) if last and last[-1].strip().lstrip("-").isdigit() else -1
            ok = runner.vmodel.run([[5, MINOR[v], reported]])[0] == 1 and r[1] == 0
            if not ok:
                bad.append({"kind": "interpreter-selection", "command_line": "erg --py-command %s run f.er" % PY_VERSIONS[v], "version": v,
                            "program": src, "stdout": r[0][-400:], "exit": r[1], "stderr": r[3], "reported_minor": reported,
                            "expected_minor": MINOR[v]})
        else:
            n_prog += 1
            exp = c.t[v].obs
            if not (r[0].endswith(exp[0]) and (r[1] == 0) == (exp[1] == 0)):
                bad.append({"kind": "erg-run-differs", "command_line": "erg --py-command %s run f.er" % PY_VERSIONS[v], "version": v,
                            "program": src, "sx": c.sx, "stdout": r[0][-400:], "exit": r[1], "stderr": r[3],
                            "expected_stdout": exp[0][-400:], "expected_exit": exp[1]})
    ctx.cov["erg_run_selection"] = {"version programs": n_ver, "generated programs x interpreters": n_prog, "failures": len(bad)}
    return bad


LIB_PROBE = r"""
import sys, os, glob
core = sys.argv[1]
bad = []
for f in sorted(glob.glob(os.path.join(core, "*.py"))):
    try:
        compile(open(f, encoding="utf-8").read(), f, "exec")
    except SyntaxError as e:
        bad.append("%s:%s: %s" % (f, e.lineno, e.msg))
sys.path.insert(0, core)
try:
    import _erg_std_prelude
except Exception as e:
    bad.append("import _erg_std_prelude: %s: %s" % (type(e).__name__, e))
print("\n".join(bad))
"""


def runtime_library_check(ctx, runner):
    """the runtime library (lib/core/*.py) must be loadable by every supported interpreter: syntax of every file, import
    of the prelude module"""
    core = os.path.join(REPO, "crates", "erg_compiler", "lib", "core")
    bad = []
    for v in VERSIONS:
        p = sh([PY_VERSIONS[v], "-c", LIB_PROBE, core], timeout=300)
        out = [l for l in p.stdout.splitlines() if l.strip()]
        if p.returncode != 0:
            out.append("probe failed: " + p.stderr[-400:])
        bad += [(v, l) for l in out]
    ctx.cov["runtime_library"] = {"interpreters": len(VERSIONS), "files": len([f for f in os.listdir(core) if f.endswith(".py")]), "problems": len(bad)}
    return bad


def magic_cross_check(ctx, runner, cases):
    """--py-command P and --py-magic-num <magic of P> must select the same target: identical code objects"""
    todo = [c for c in cases if c.t[DEFAULT].accepted and c.verdict and c.verdict[0]][:ctx.scale(6, 40)]
    bad = []
    jobs = [(c, v) for c in todo for v in VERSIONS if c.t[v].accepted]
    names = {}
    for i, c in enumerate(todo):
        names[id(c)] = "m%d" % i
    with ThreadPoolExecutor(16) as ex:
        res = list(ex.map(lambda j: target_one(runner.erg, runner.env, runner.work, names[id(j[0])], j[0].erg_src, j[1], how="magic"), jobs))
    for (c, v), o in zip(jobs, res):
        if not o.accepted:
            bad.append((c, v, "--py-magic-num %d: not compiled" % MAGIC[v]))
            continue
        a, b = open(c.t[v].pyc, "rb").read(), open(o.pyc, "rb").read()
        # header: magic (4) flags (4) mtime (4) size (4); the code object's file name differs (p<N> / m<N>): compare behaviour + magic
        if a[:4] != b[:4] or o.obs != c.t[v].obs:
            bad.append((c, v, "--py-command and --py-magic-num %d give different targets/behaviour" % MAGIC[v]))
    ctx.cov["magic_cross_check"] = {"program x target pairs": len(jobs), "differences": len(bad)}
    return bad


def run_with(ctx, runner, proof):
    cases = []
    corpus = os.path.join(VERIF, "corpus", "C13")
    if os.path.isdir(corpus):
        for f in sorted(os.listdir(corpus)):
            if f.endswith(".json"):
                cases.append(Case("corpus", G.from_sx(json.load(open(os.path.join(corpus, f)))["sx"]), f))
    cases += gen_cases(ctx)
    ctx.log("%d programs x %d targets" % (len(cases), len(VERSIONS)))
    runner.observe(cases)
    ctx.log("observed (erg for 5 targets + oracle + evaluator)")
    c01_known = c01_known_ids()
    failing, oracle_diff, n_rej = [], [], 0
    n_om = 0
    first_om = None
    for c in cases:
        ctx.count("stream:" + c.kind)
        for f in G.features(c.prog):
            ctx.count(f)
        if c.oracle != c.model:
            n_om += 1
            first_om = first_om or c
        d = c.t[DEFAULT]
        for v in VERSIONS:
            o = c.t[v]
            ctx.count("target %s: %s" % (v, "compiled" if o.accepted else ("CRASH at compile time" if o.crashed else "rejected at compile time")))
        if not any(c.t[v].accepted for v in VERSIONS):
            n_rej += 1
            if ctx.cov.get("rejected_sample") is None:
                ctx.cov["rejected_sample"] = {"erg": c.erg_src, "diagnostics": d.diag[-800:]}
            for v in VERSIONS:
                ctx.case([c.sx, v], nontrivial=False)
            continue
        ok, diff = runner.judge(c)
        ctx.count("outcome:" + ((d.obs[2] or "normal exit") if d.accepted else "not compiled for the default target"))
        # one case per element of the quantifier's cross product (program, target)
        for v in VERSIONS:
            ctx.case([c.sx, v], nontrivial=bool(d.accepted and c.t[v].accepted and c.model and c.model[0]),
                     sample=({"erg": c.erg_src, "stdout": (d.obs[0][:200] if d.accepted else None),
                              "targets equal to 3.11": [w for w in VERSIONS if MINOR[w] not in diff]} if v == DEFAULT else None))
        if not ok:
            failing.append((c, ["3.%d" % m for m in diff]))
        elif d.accepted and c.oracle == c.model and d.obs != c.oracle:
            cls = [k for k, f in zip(C01_CLASSES, c.flags[2:2 + len(C01_CLASSES)]) if f == 1]
            if any(k in c01_known for k in cls):
                ctx.count("all targets agree, differ from the Python reading in a known class of C01 (%s)" % cls[0])
            else:
                oracle_diff.append(c)
    ctx.cov["erg_rejected_for_every_target"] = n_rej
    # ---- erg run / interpreter selection
    sample = [c for c in cases if all(c.t[v].accepted for v in VERSIONS) and c.verdict and c.verdict[0]][:ctx.scale(4, 40)]
    sel_bad = selection_check(ctx, runner, sample)
    magic_bad = magic_cross_check(ctx, runner, cases)
    lib_bad = runtime_library_check(ctx, runner)
    # ---- bytecode tie per version
    mism, stats = bytecode_tie(ctx, runner, cases)
    ctx.cov["bytecode_tie"] = stats
    ctx.log("bytecode tie: %s, %d mismatches" % (stats, len(mism)))
    # ---- model tables vs the interpreters' own opmap (the extracted static bytes; the theorems cover gen/*.v)
    tab_bad = []
    for v in VERSIONS:
        rows = runner.vmodel.run([[3, MINOR[v]]])[0]
        names_ = ["CACHE", "POP_TOP", "PUSH_NULL", "NOP", "UNARY_POSITIVE", "UNARY_NEGATIVE", "UNARY_NOT", "UNARY_INVERT", "BINARY_POWER",
                  "BINARY_MULTIPLY", "BINARY_MODULO", "BINARY_ADD", "BINARY_SUBTRACT", "BINARY_FLOOR_DIVIDE", "BINARY_TRUE_DIVIDE",
                  "RETURN_VALUE", "STORE_NAME", "LOAD_CONST", "LOAD_NAME", "COMPARE_OP", "JUMP_IF_FALSE_OR_POP", "JUMP_IF_TRUE_OR_POP",
                  "BINARY_OP", "CALL_FUNCTION", "EXTENDED_ARG", "RESUME", "PRECALL", "CALL"]
        for nm, (byte, emitted, has) in zip(names_, rows):
            real = runner.tables[v]["opmap"].get(nm)
            if emitted == 1 and real != byte:
                tab_bad.append((v, nm, byte, real))
            if (has == 1) != (real is not None) and nm not in ("CALL_FUNCTION",):   # 3.11's opmap has no CALL_FUNCTION; erg's table lists it
                tab_bad.append((v, nm, "has_op=%d" % has, real))
    # ---- verdicts
    if n_om:
        c = first_om
        ctx.violation("broken-correspondence",
                      "the independent Python oracle and the Coq evaluator disagree on %d programs (the model or the oracle is wrong)" % n_om,
                      case=c.as_json(), impl={"oracle": c.oracle}, model={"sem": c.model}, no_input=True)
    for c, vers in failing[:3]:
        small = G.shrink(c.prog, runner.fails_for(vers, ctx.scale(240, 900)), budget=ctx.scale(60, 200))
        sc = Case("shrunk", small)
        runner.observe([sc])
        ok, diff = runner.judge(sc)
        if ok or not sc.t[DEFAULT].accepted:
            sc, diff = c, [MINOR[v] for v in vers]
        dv = ["3.%d" % m for m in diff]
        ctx.violation("failing-input",
                      "the program compiled for target %s and run by that interpreter does not behave as under the default target 3.11: %s vs %s" % (
                          ", ".join(dv), {v: sc.t[v].summary() for v in dv}, sc.t[DEFAULT].summary()),
                      case=sc.as_json(versions=dv + [DEFAULT]), impl={v: sc.t[v].summary() for v in VERSIONS},
                      model={"meaning (Sem.run)": sc.model, "python_oracle": sc.oracle}, judge=False)
    for c in oracle_diff[:2]:
        ctx.violation("failing-input", "all targets agree but differ from the program's Python reading: %r / %s vs %r / %s" % (
            c.t[DEFAULT].obs[0][-300:], c.t[DEFAULT].obs[2] or "exit 0", c.oracle[0][-300:], c.oracle[2] or "exit 0"),
            case=c.as_json(), impl={v: c.t[v].summary() for v in VERSIONS}, model={"python_oracle": c.oracle}, judge=False)
    for b in sel_bad[:2]:
        ctx.violation("failing-input", "`%s` does not execute the bytecode with the selected interpreter / as that interpreter does: %s" % (
            b["command_line"], {k: b[k] for k in ("stdout", "exit", "stderr") if k in b}), case=b, impl=b, judge=False)
    for v, l in lib_bad[:2]:
        ctx.violation("failing-input", "the runtime library is not loadable by python%s: %s" % (v, l),
                      case={"kind": "runtime-library", "version": v, "problem": l}, impl={"problem": l}, judge=False)
    for c, v, what in magic_bad[:1]:
        ctx.violation("failing-input", what, case=c.as_json(versions=[v]), impl={v: c.t[v].summary()}, judge=False)
    # ---- known findings
    for entry in ctx.known():
        if entry["id"] == "far-jump":
            src = far_jump_source()
            o9 = target_one(runner.erg, runner.env, runner.work, "farjump", src, "3.9")
            o10 = target_one(runner.erg, runner.env, runner.work, "farjump", src, "3.10")
            if o9.crashed and o10.accepted:
                ctx.known_finding(entry)
                ctx.cov["known_far_jump"] = {"3.9": "compiler panics (fill_jump)", "3.10": "compiles, prints %r" % o10.obs[0][-10:]}
            else:
                ctx.notes.append("NOTE stale-known-finding far-jump: the witness no longer reproduces")
                print("NOTE stale-known-finding property=C13 far-jump")
    # a program on which the model differs from erg for the DEFAULT target too is not a version difference: that is the
    # subject of C01's tie (model of the version-independent part / the generator's wrap prediction); reported as a note
    common = {id(c) for c, v, w, mm, rr in mism if v == DEFAULT}
    if common:
        first = next(w for c, v, w, mm, rr in mism if v == DEFAULT)
        ctx.notes.append("NOTE %d program(s) on which the model differs from erg for the default target as well (C01's tie, not a "
                         "version difference; first: %s)" % (len(common), first[:300]))
        ctx.cov["bytecode_tie"]["programs differing for the default target too (C01's tie)"] = len(common)
    mism = [m for m in mism if id(m[0]) not in common]
    anything = failing or oracle_diff or sel_bad or magic_bad or lib_bad
    if (mism or tab_bad or not proof.ok) and not anything:
        what, first = [], None
        if not proof.ok:
            what.append("theorem(s) no longer check: " + proof.summary())
        if tab_bad:
            what.append("opcode numbers of the model differ from the interpreters' dis.opmap: %s" % tab_bad[:6])
        if mism:
            c, v, w, mm, rr = mism[0]
            what.append("%d (program, target) pairs on which the model of codegen.rs's version branch and the decoded .pyc differ while "
                        "the run-time behaviour agrees (first: %s)" % (len(mism), w))
            first = dict(c.as_json(versions=[v]), model_bytecode=mm, erg_bytecode=rr)
        ctx.violation("broken-correspondence" if (mism or tab_bad) else "broken-theorem", "; ".join(what), case=first,
                      theorem=proof.summary() or "compile_v_correct / all_targets_agree_partial", no_input=True)


def replay(ctx, path):
    r = json.load(open(path))
    case = r.get("case") or {}
    runner = Runner(ctx)
    try:
        if case.get("kind") in ("interpreter-selection", "erg-run-differs"):
            v = case["version"]
            out = erg_run_one(runner.erg, runner.env, runner.work, "replay", case["program"], v)
            print("$ erg --py-command %s run f.er" % PY_VERSIONS[v])
            print(case["program"])
            print("stdout:", out[0][-600:], "exit:", out[1], "stderr:", out[3])
            if case["kind"] == "interpreter-selection":
                last = [l for l in out[0].splitlines() if l.strip()]
                reported = int(last[-1]) if last and last[-1].strip().isdigit() else -1
                ok = runner.vmodel.run([[5, MINOR[v], reported]])[0] == 1
                print("judge_interpreter(selected 3.%d, reported %s):" % (MINOR[v], reported), ok)
                if not ok:
                    ctx.violation("failing-input", "erg run does not use the selected interpreter", case=case, impl={"obs": out}, judge=False)
            return
        if case.get("kind") == "runtime-library":
            bad = runtime_library_check(ctx, runner)
            print("runtime library problems:", bad)
            for v, l in bad[:2]:
                ctx.violation("failing-input", "the runtime library is not loadable by python%s: %s" % (v, l), case=case, impl={"problem": l}, judge=False)
            return
        if "sx" not in case:
            print("replay file carries no program"); return
        c = Case("replay", G.from_sx(case["sx"]))
        runner.observe([c])
        print(c.erg_src)
        for v in VERSIONS:
            print("target %-4s:" % v, c.t[v].summary())
        print("oracle:", c.oracle)
        print("meaning:", c.model)
        ok, diff = runner.judge(c)
        print("judge_targets:", ok, "differing:", diff)
        mism, stats = bytecode_tie(ctx, runner, [c])
        print("bytecode tie:", stats, [m[2] for m in mism])
        if not ok:
            ctx.violation("failing-input", "targets %s do not behave as the default target" % diff, case=c.as_json(),
                          impl={v: c.t[v].summary() for v in VERSIONS}, model={"oracle": c.oracle}, judge=False)
    finally:
        runner.close()
