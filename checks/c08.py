"""C08 — the lexer is total and reports faithful token positions.

proof:          coq/Lexer/Props_C08.v over the model coq/Lexer/Model.v (transliteration of
                crates/erg_parser/lex.rs: Lexer::next and all helpers; TokenKind/TokenCategory of token.rs)
correspondence: exact item-stream equality (token kind, content, line, col_begin, col_end; error class,
                parameter and location, in the order the iterator yields them) between
                erg_parser::lex::Lexer (harness ergv-lexer, also cross-checked against Lexer::lex()) and the
                extracted model, on generated programs, a malformed stream and every .er file under the repo
judge:          coq/Lexer/Spec.v `judge` (extracted) applied to the IMPLEMENTATION's stream: no crash; EOF-terminated
                and Indent/Dedent-balanced or >= 1 error; every token reported where its source text begins,
                in source order
"""
import glob
from lib.vplib import *

REGISTRY = dict(
    category="proof",
    text="Coq model of the whole lexer (coq/Lexer/Model.v: Lexer::next, indentation with the cursor rewind, numbers, "
         "strings, interpolation, comments, raw identifiers; positions with a ghost source index per token) with "
         "theorems for all input texts (termination by a fuel bound, no panic, EOF-or-error, positions = line/column "
         "of the token's first source character, source order), tied to erg_parser::lex::Lexer by exact item-stream "
         "equality on generated programs, a malformed stream and all .er files of the repo; an extracted judge "
         "(coq/Lexer/Spec.v) decides the property on the implementation's own stream.",
    note="Trusted: Coq kernel, extraction (ExtrOcamlBasic) + generic OCaml driver, harness/lexer. is_xid_start / "
         "is_xid_continue are parameters of the model (theorems hold for every classification); for the extracted "
         "model they are instantiated per case by the answers of the real Lexer::is_valid_*_symbol_ch for the code "
         "points of that case. u32/usize overflow not modelled (inputs < 2^30 chars). The Rust call stack is not "
         "modelled (the recursion per skipped line break was replaced by a loop in /repo).",
    technique="Coq proof over hand model + exact token-stream correspondence (extracted model vs Lexer) + extracted judge",
    design="DESIGN.md §4 C08")

# mirror of coq/Lexer/Model.v all_kinds / all_cats (compared with the harness' table of the real enums on every run)
KIND_NAMES = """Symbol NatLit IntLit BinLit OctLit HexLit RatioLit BoolLit StrLit StrInterpLeft StrInterpMid StrInterpRight
NoneLit EllipsisLit InfLit DocComment PrePlus PreMinus PreBitNot Mutate PreStar PreDblStar Try Plus Minus Star Slash FloorDiv
Pow Mod Closed RightOpen LeftOpen Open BitAnd BitOr BitXor Shl Shr Less Gre LessEq GreEq DblEq NotEq InOp NotInOp ContainsOp
SubOp IsOp IsNotOp AndOp OrOp RefOp RefMutOp Assign Inclusion Walrus FuncArrow ProcArrow LParen RParen LSqBr RSqBr LBrace
RBrace Indent Dedent Dot Pipe Colon DblColon SupertypeOf SubtypeOf As Comma Caret Amper AtSign VBar UBar Newline Semi Illegal
BOF EOF""".split()
CAT_NAMES = """Symbol Literal StrInterpLeft StrInterpMid StrInterpRight BinOp UnaryOp PostfixOp LEnclosure REnclosure
SpecialBinOp DefOp LambdaOp Separator Reserved AtSign VBar UBar BOF EOF Illegal""".split()
K = {n: i for i, n in enumerate(KIND_NAMES)}

ERR_NAMES = ["bidi-in-comment", "unclosed-multi-comment", "invalid-indent", "indent-too-deep", "invalid-decimal",
             "invalid-syntax", "compiler-bug", "str-line-break", "invalid-escape", "unclosed-string",
             "unclosed-interpolation", "bidi-in-string", "raw-ident-not-closed", "raw-ident-not-ended",
             "no-such-operator", "feature", "tab", "backslash-non-newline", "backquote-undefinable",
             "backquote-not-closed", "invalid-char"]

# the variant of the model that describes the current code: both repairs in (see Model.v fx_esc / fx_pos)
FX = tuple(int(c) for c in os.environ.get("C08_FX", "11"))

ANSI = re.compile(r"\x1b\[[0-9;]*m")


def classify_error(kind, msg, hint):
    """(errkind, main message, hint) of the implementation -> (class code, parameter) of Model.v errclass"""
    msg = ANSI.sub("", msg)
    if kind == 5:
        return (15, 0)
    if kind == 3:
        return (6, 0)
    if kind != 11:
        return (-1, kind)
    table = [("invalid unicode character (bi-directional override) in comments", 0),
             ("multi-comment is not closed with ]#", 1),
             ("indentation is too deep", 3),
             ("invalid syntax", 5),
             ("Line breaks are not allowed within a string", 7),
             ("the interpolation in the string is not closed", 10),
             ("invalid unicode character (bi-directional override) in string literal", 11),
             ("raw identifier is not closed by '", 12),
             ("raw identifier is not ended with '", 13),
             ("no such operator: <.", 14),
             ("cannot use a tab as a space", 16),
             ("cannot put anything other than line breaks after \\", 17),
             ("back quotes (`) not closed", 19)]
    for m, c in table:
        if msg == m:
            return (c, 0)
    if msg == "invalid indent":
        return (2, 1 if hint else 0)
    if msg.endswith(" is invalid decimal literal"):
        return (4, 0)
    if msg.startswith("illegal escape sequence: \\") and len(msg) == len("illegal escape sequence: \\") + 1:
        return (8, ord(msg[-1]))
    if msg.startswith("the string is not closed "):
        by = msg[len("the string is not closed "):]
        return (9, {"": 0, 'by "': 1, 'by """': 2, "by '''": 3}.get(by, -1))
    if msg.endswith(" does not exist or cannot be defined by user"):
        return (18, 1 if hint else 0)
    if msg.startswith("invalid character: '") and msg.endswith("'") and len(msg) == len("invalid character: ''") + 1:
        return (20, ord(msg[len("invalid character: '")]))
    return (-1, 0)


def canon_impl(r):
    """harness answer -> canonical item list, or the string 'PANIC' / 'CRASH' / 'LEXFLAG'"""
    if not isinstance(r, list) or not r:
        return "CRASH"
    if r[0] == -999:
        return "PANIC"
    if r[0] == -997:
        return "CRASH"
    items = []
    for it in r[0]:
        if it[0] == 0:
            items.append(["T", it[1], it[2], it[3], it[4], it[5]])
        else:
            code, par = classify_error(it[1], sx_str(it[2]), it[3])
            loc = [it[5], it[6], it[8]] if it[4] == 0 and it[5] == it[7] else ([] if it[4] == 3 else ["odd"] + it[4:])
            items.append(["E", code, par, loc])
    if r[1] != 1:
        return "LEXFLAG"   # Lexer::lex() disagrees with iterating the Lexer
    return items


def canon_model(r):
    if r[0] == -999:
        return "PANIC"
    if r[0] == -998:
        return "FUEL"
    items = []
    for it in r[1:]:
        if it[0] == 0:
            items.append(["T", it[1], it[2], it[3], it[4], it[5]])
        else:
            loc = [it[5], it[6], it[7]] if it[5] != 0 else []
            items.append(["E", it[1], it[2], loc])
    return items


def show_items(items):
    if isinstance(items, str):
        return items
    out = []
    for it in items:
        if it[0] == "T":
            out.append("%s %r @%d:%d..%d" % (KIND_NAMES[it[1]] if 0 <= it[1] < len(KIND_NAMES) else it[1], sx_str(it[2]), it[3], it[4], it[5]))
        else:
            out.append("ERR %s/%s @%s" % (ERR_NAMES[it[1]] if 0 <= it[1] < len(ERR_NAMES) else it[1], it[2], it[3]))
    return out


# ---------------------------------------------------------------- generators
IDENTS = ["x", "y", "i", "n", "foo", "bar_baz", "_a", "a1", "T", "Point", "print!", "f!", "self", "do", "do!", "if", "if!",
          "for!", "while!", "match", "Class", "import", "then", "変数", "αβγ", "ünï", "naïve", "é1", "名前!", "x２", "_",
          "and", "or", "in", "notin", "contains", "is!", "isnot!", "ref", "ref!", "True", "False", "None", "Ellipsis", "Inf",
          "as", "e", "e3", "b1", "x0", "o7"]
NUMS = ["0", "1", "42", "1_000", "0003", "1.5", "3.", ".5", "1e+3", "2.5e-10", "1.0e+3_0", "0b101", "0B1_1", "0o17", "0O7",
        "0xFF", "0Xdead_beef", "-1", "-0", "-00", "-0_0", "-3.5", "10.times!", "1..3", "1.x", "0b", "0x", "0xg", "1e", "1e5",
        "1.e+1", "1._", "3x", "1_", "9.0e", "7.e"]
OPS = ["+", "-", "*", "/", "//", "**", "%", "==", "!=", "<", ">", "<=", ">=", "&&", "||", "^^", "<<", ">>", "..", "..<", "<..",
       "<..<", "=", ":=", "->", "=>", "<-", ":", "::", ":>", "<:", ".", ",", ";", "|", "|>", "&", "^", "~", "!", "?", "@", "...",
       "<.", "$"]
ESCAPES = ["\\n", "\\t", "\\r", "\\0", "\\\\", "\\\"", "\\'", "\\x41", "\\x7f", "\\xZ1", "\\x4", "\\q", "\\ "]
PLAIN = ["a", "b", "hello", " ", "world", "é", "日本", "{", "}", "#", "'", "1", "  ", "\\{}"]
BIDI = ["‏", "‫", "‮", "⁧"]
ODD = ["​", "﻿", " ", "　", "０", "́", "‍", "\x00", "\U0010ffff", "\x7f", " ", "\x0b", "\x0c"]


ESC_LETTERS = [chr(c) for c in range(33, 127)] + ["é", "ü", "α", "日", "ｘ", "\n", " ", "\t"]
HEX_BOUNDARY = ["00", "7f", "80", "ff", "d7ff", "d800", "dbff", "dc00", "dfff", "e000", "ffff", "10ffff", "110000",
                "0", "7", "f", "F", "g", "D800", "DFFF", "0041", "41", "1F600", "{41}", "{d800}", "_1", "+1"]


def gen_escape(rng):
    """a backslash, ANY printable ASCII (or a few other) escape letter, then a hex-digit run of length 0..8 built from
    boundary values: a newly accepted escape letter or digit count shows up as a model/lexer disagreement"""
    letter = rng.choice(ESC_LETTERS) if rng.random() < 0.7 else rng.choice("xuUNnotrb0123")
    run = rng.choice(HEX_BOUNDARY) if rng.random() < 0.85 else ""
    k = rng.random()
    if k < 0.25:
        run = run[:rng.randint(0, len(run))]
    elif k < 0.4:
        run = (run + rng.choice(HEX_BOUNDARY))[:8]
    elif k < 0.5:
        run = run.upper()
    return "\\" + letter + run


def gen_escape_probe(rng):
    """one escape inside a single-line / multi-line / interpolated string, at the end of input, before the closing
    quote, before a line break or before ordinary text"""
    opener, closer = rng.choice([('"', '"'), ('"', '"'), ('"""', '"""'), ("'''", "'''"), ('"a\\{x}', '"'), ('"""a\\{x}', '"""'),
                                 ('"\\{y}b\\{x}', '"'), ("'''\n  \\{x} ", "'''")])
    prefix = rng.choice(["", "", "a", "ab ", "é", "\\n", " "])
    esc = gen_escape(rng)
    k = rng.random()
    if k < 0.3:
        tail = ""                                   # end of input
    elif k < 0.6:
        tail = closer + rng.choice(["", " + y", "\n", ".f"])
    elif k < 0.8:
        tail = "\n" + rng.choice(["", "z" + closer, closer + "\n", "  w"])
    else:
        tail = rng.choice(["q", " ", "}", "\\{z}", gen_escape(rng)]) + rng.choice([closer, "", closer + " # c\n"])
    head = rng.choice(["", "", "x = ", "print! ", "f(", "    "])
    return head + opener + prefix + esc + tail


def gen_bracket_blank_lines(rng):
    """runs of consecutive line breaks (and blank / comment lines) inside (...), [...], {...}"""
    o, c = rng.choice(["()", "[]", "{}"])
    parts = [rng.choice(["x = ", "f", "", "print! "]) + o]
    for _ in range(rng.randint(1, 4)):
        parts.append("\n" * rng.choice([0, 1, 2, 2, 3, 5]))
        if rng.random() < 0.3:
            parts.append(rng.choice(["  ", "# c\n", " \n", "\\\n", "#[ a\n ]#"]))
            parts.append("\n" * rng.choice([0, 1, 2]))
        parts.append(rng.choice(["1", "a", '"s"', "(\n\nb)", "y: 2", "-1", "'r'"]) + rng.choice([",", ", ", "", ";"]))
    parts.append("\n" * rng.choice([0, 1, 2, 4]))
    parts.append(c)
    parts.append(rng.choice(["", "\n", "\nz = 1\n", " + w\n\nv"]))
    return "".join(parts)


def gen_str(rng, depth):
    """a single-line string literal, possibly with escapes and interpolation"""
    parts = ['"']
    for _ in range(rng.randint(0, 4)):
        k = rng.random()
        if k < 0.45:
            parts.append(rng.choice(PLAIN))
        elif k < 0.74:
            parts.append(rng.choice(ESCAPES[:9]))
        elif k < 0.8:
            parts.append(gen_escape(rng))
        elif depth < 2:
            parts.append("\\{" + gen_expr(rng, depth + 1) + "}")
        else:
            parts.append("z")
    parts.append('"')
    return "".join(parts)


def gen_mstr(rng, depth):
    q = rng.choice(['"""', '"""', "'''"])
    parts = [q]
    for _ in range(rng.randint(0, 6)):
        k = rng.random()
        if k < 0.35:
            parts.append(rng.choice(PLAIN + ['"', '""', "''"]))
        elif k < 0.55:
            parts.append("\n" + " " * rng.randint(0, 6))
        elif k < 0.72:
            parts.append(rng.choice(ESCAPES[:7]))
        elif k < 0.76:
            parts.append(gen_escape(rng))
        elif k < 0.8:
            parts.append("\\\n")
        elif depth < 2:
            parts.append("\\{" + gen_expr(rng, depth + 1) + "}")
        else:
            parts.append("m")
    parts.append(q)
    return "".join(parts)


def gen_atom(rng, depth):
    k = rng.random()
    if k < 0.3:
        return rng.choice(IDENTS)
    if k < 0.5:
        return rng.choice(NUMS[:26])
    if k < 0.62:
        return gen_str(rng, depth)
    if k < 0.68:
        return gen_mstr(rng, depth)
    if k < 0.72:
        return "'" + rng.choice(["a b", "d/dx", "+", "変", "x y z", ""]) + "'" + rng.choice(["", "", "!"])
    if k < 0.75:
        return "`" + rng.choice(["+_", "_+_", "-_", "*", "//", "==", "dot", "cross", "<=", "+", "foo"]) + "`"
    if depth < 2:
        o, c = rng.choice(["()", "[]", "{}"])
        inner = [gen_expr(rng, depth + 1) for _ in range(rng.randint(0, 2))]
        sep = rng.choice([", ", ",", ",\n    ", ", \n", "; ", ",\n\n", ",\n\n\n  "])
        body = sep.join(inner)
        if rng.random() < 0.25:
            body = rng.choice(["\n", "\n\n", "\n\n\n"]) + " " * rng.randint(0, 8) + body + rng.choice(["\n", "\n  ", "", "\n\n"])
        if rng.random() < 0.1:
            body += " # c\n"
        return o + body + c
    return rng.choice(IDENTS)


def gen_expr(rng, depth=0):
    parts = [gen_atom(rng, depth)]
    for _ in range(rng.choice([0, 0, 0, 1, 1, 2])):
        sp1 = rng.choice(["", " ", " ", "  "])
        sp2 = rng.choice(["", " ", " "])
        parts.append(sp1 + rng.choice(OPS[:42]) + sp2 + gen_atom(rng, depth))
    if rng.random() < 0.15:
        parts.insert(0, rng.choice(["-", "+", "!", "~", "*", "**", "ref ", "ref! "]))
    return "".join(parts)


def gen_line(rng):
    k = rng.random()
    if k < 0.3:
        s = rng.choice(IDENTS) + rng.choice([" = ", "=", " := ", ": Int = ", " ="]) + gen_expr(rng)
    elif k < 0.5:
        s = rng.choice(["print! ", "f ", "assert ", "log "]) + ", ".join(gen_expr(rng) for _ in range(rng.randint(1, 3)))
    elif k < 0.58:
        s = gen_expr(rng) + rng.choice([" \\\n", "\\\n    "]) + rng.choice(OPS[:12]) + " " + gen_expr(rng)
    elif k < 0.66:
        s = "#[ " + rng.choice(["c", "multi\n  line", "nested #[ x ]# y", "日本語", ""]) + " ]#" + rng.choice(["", " ", ""]) + rng.choice(["", gen_expr(rng)])
    else:
        s = gen_expr(rng)
    if rng.random() < 0.2:
        s += rng.choice([" # comment", "# c", " #", "  # 日本語 \"x\" 'y'"])
    if rng.random() < 0.08:
        s += " " * rng.randint(1, 3)
    return s


def gen_block(rng, indent, depth, out):
    n = rng.choice([1, 1, 2, 3])
    for _ in range(n):
        if depth < (6 if rng.random() < 0.15 else 3) and rng.random() < 0.3:
            head = rng.choice(["if x, do:", "f x, y =", "for! 0..n, i =>", "C = Class {.x = Int}", "x ->", "do!:", "match x:", "g(a) ="])
            out.append(" " * indent + head + rng.choice(["", "", " # c"]))
            gen_block(rng, indent + rng.choice([4, 4, 4, 2, 1, 8]), depth + 1, out)
        else:
            out.append(" " * indent + gen_line(rng))
        if rng.random() < 0.12:
            out.append(rng.choice(["", "", " " * indent, "# only a comment", " " * rng.randint(0, 9) + "# c"]))


def gen_program(rng):
    out = []
    if rng.random() < 0.1:
        out.append("")
    for _ in range(rng.choice([1, 1, 2])):
        gen_block(rng, 0, 0, out)
    s = "\n".join(out)
    r = rng.random()
    if r < 0.6:
        s += "\n"
    elif r < 0.7:
        s += "\n\n"
    if rng.random() < 0.05:
        s = s.replace("\n", "\r\n")
    return s


def gen_indent_walk(rng):
    """indentation stress: short lines whose widths walk up by small steps and fall back to earlier (mostly valid) levels"""
    levels = [0]
    out = []
    for _ in range(rng.randint(3, 14)):
        k = rng.random()
        if k < 0.45:
            levels.append(levels[-1] + rng.choice([1, 1, 2, 2, 3, 4]))
        elif k < 0.8 and len(levels) > 1:
            del levels[rng.randrange(1, len(levels)):]
        elif k < 0.88:
            w = max(0, levels[-1] + rng.choice([-3, -1, 1]))      # possibly an invalid dedent
            levels = [l for l in levels if l < w] + [w]
        body = rng.choice(["x", "y = 1", "f x:", "a, b", "(", ")", "# c", "", "z \\", '"s"', "[1,", "2]"])
        out.append(" " * levels[-1] + body)
    return "\n".join(out) + rng.choice(["", "\n", "\n  ", "\n\n"])


NASTY = list("\\\\\"\"''{}#[]\n\n\t\r  `$!._0e+-x1=()<>:*/,;|&^~?@a") + BIDI[:2] + ODD[:6] + ["\\{", '"""', "'''", "#[", "]#", "    ", "\\\n", "\\x"]


def mutate(rng, s):
    """one malformation of a (mostly valid) program"""
    if not s:
        return rng.choice(NASTY)
    k = rng.random()
    pos = rng.randrange(len(s) + 1)
    special = [i for i, c in enumerate(s) if c in "\"'\\{}"]
    if k < 0.30:     # truncation, biased to positions inside strings / escapes / interpolations
        if special and rng.random() < 0.7:
            pos = min(len(s), max(0, rng.choice(special) + rng.choice([-1, 0, 1, 2, 3])))
        return s[:pos]
    if k < 0.40:
        return s[:pos] + rng.choice(["\t", "\t\t", " \t"]) + s[pos:]
    if k < 0.50:     # tabs / odd widths in indentation
        lines = s.split("\n")
        i = rng.randrange(len(lines))
        stripped = lines[i].lstrip(" ")
        w = len(lines[i]) - len(stripped)
        lines[i] = rng.choice(["\t", " " * (w + rng.choice([-3, -2, -1, 1, 2, 3, 101])) if w + 101 > 0 else " ", " \t", "\t "]) + stripped \
            if rng.random() < 0.5 else " " * max(0, w + rng.choice([-3, -2, -1, 1, 2, 3])) + stripped
        return "\n".join(lines)
    if k < 0.60:
        return s[:pos] + rng.choice(['"', "'", '"""', "'''", "`", "\\", "\\{", "}", "{"]) + s[pos:]
    if k < 0.66:
        return s + rng.choice(["\\", '"a\\', '"""a\\', '"\\x', '"\\x4', '"a\\{x}b\\', "'", '"', '"""', "'''a", "`+", "1e", "1.0e", "#[ a", "("])
    if k < 0.76:
        return s[:pos] + rng.choice(BIDI + ODD) + s[pos:]
    if k < 0.84:
        return s[:pos] + s[pos + 1:]
    if k < 0.90:
        return s[:pos] + rng.choice(NASTY) + s[pos:]
    if k < 0.95:
        j = min(len(s), pos + rng.randint(1, 6))
        return s[:pos] + s[j:]
    return s[:pos] + s[pos:pos + 3] + s[pos:]


def gen_noise(rng):
    return "".join(rng.choice(NASTY) for _ in range(rng.randint(1, 24)))


def all_truncations_inside_strings(s):
    """every truncation position at or just after a quote, backslash or brace and inside string spans (thorough)"""
    out = set()
    in_str = False
    for i, c in enumerate(s):
        if c in "\"'\\{}":
            for d in (0, 1, 2, 3):
                if i + d <= len(s):
                    out.add(i + d)
        if c == '"':
            in_str = not in_str
        if in_str:
            out.add(i)
    return [s[:p] for p in sorted(out)]


# ---------------------------------------------------------------- running
class Machinery:
    def __init__(self, ctx):
        self.ctx = ctx
        self.h = Harness(ctx, "lexer")
        self.model = ctx.model("Lexer")
        self.cls = {}
        self.check_tables()

    def check_tables(self):
        impl = self.h.run([[1]])[0]
        mod = self.model.run([[1]])[0]
        names = [sx_str(k[1]) for k in impl]
        if names != KIND_NAMES or [k[0] for k in impl] != list(range(len(KIND_NAMES))):
            raise TieBroken("TokenKind of token.rs is no longer the enum the model transcribes: %s" % names)
        if [m[0] for m in mod] != list(range(len(KIND_NAMES))):
            raise FrameworkError("model kind table is not in enum order")
        bad = [(names[i], sx_str(k[3]), CAT_NAMES[m[1]]) for i, (k, m) in enumerate(zip(impl, mod))
               if sx_str(k[3]) != CAT_NAMES[m[1]]]
        self.cat_mismatch = bad

    def classify(self, texts):
        need = sorted({ord(c) for t in texts for c in t} - set(self.cls))
        if need:
            for cp, s, c, b in self.h.run([[2, need]])[0]:
                self.cls[cp] = (s, c, b)

    def tables(self, text):
        cps = sorted(set(ord(c) for c in text))
        return [c for c in cps if self.cls[c][0]], [c for c in cps if self.cls[c][1]]

    def run_impl(self, texts):
        return [canon_impl(r) for r in self.h.run([[0, t] for t in texts])]

    def run_model(self, texts, fx=None):
        fx = fx or FX
        self.classify(texts)
        cases = []
        for t in texts:
            st, co = self.tables(t)
            cases.append([0, fx[0], fx[1], st, co, t])
        return [canon_model(r) for r in self.model.run(cases)]

    def judge(self, texts, impls):
        cases = []
        for t, im in zip(texts, impls):
            if isinstance(im, str):
                cases.append([2, t, 1, 0, []])
            else:
                toks = [[i[1], i[2], i[3], i[4]] for i in im if i[0] == "T"]
                cases.append([2, t, 0, sum(1 for i in im if i[0] == "E"), toks])
        return self.model.run(cases)

    def judge_one(self, text):
        im = self.run_impl([text])[0]
        return self.judge([text], [im])[0], im


VERDICT = {1: "the lexer crashed (panic / abort)", 2: "token stream neither ends with EOF with balanced Indent/Dedent nor reports an error",
           3: "token #%d is not reported at the line/column where its source text begins", 4: "token #%d is reported out of source order (overlaps its predecessor)"}


def er_files():
    fs = []
    for root in ("examples", "tests", "crates", "doc", "src"):
        fs += glob.glob(os.path.join(REPO, root, "**", "*.er"), recursive=True)
    return sorted(set(fs))


def run(ctx):
    ctx.cov["rule"] = ("inputs: (a) grammar-based mostly valid programs (indent blocks, strings with escapes, multi-line strings, "
                       "interpolation, comments, numbers, operators, raw/non-ASCII identifiers), (b) malformed stream (truncations "
                       "biased to strings/escapes/interpolations, tabs, odd indentation, stray quotes, backslash at EOF, bidi / "
                       "zero-width / fullwidth characters, random noise), (c) every .er file under the repo; "
                       "non-trivial = distinct input whose stream has >= 5 tokens and is error-free, or has >= 1 error after >= 2 tokens")
    ctx.cov["trusted_base"] = ["Coq 8.16.1 kernel", "extraction (ExtrOcamlBasic only) + extract/driver.ml",
                               "harness/lexer/src/main.rs (iterates erg_parser::lex::Lexer, cross-checks Lexer::lex(), dumps TokenKind/TokenCategory, answers is_valid_*_symbol_ch)",
                               "unicode_xid classification: parameter of the model, instantiated per case from the implementation's own answers",
                               "python canonicalisation: English error messages -> error class enum"]
    ctx.assumptions = ["input shorter than 2^30 characters (u32 line/column and usize cursor arithmetic cannot overflow)",
                       "the Rust call stack is not modelled (Iterator::next re-enters by a loop since the C08 repair)",
                       "positions are relative to the newline-normalised text (\\r\\n and \\r read as \\n), as the lexer defines them"]
    proof = ctx.coq(["Lexer/Props_C08.v"])
    m = Machinery(ctx)
    texts, origin = [], []

    def add(t, o):
        texts.append(t)
        origin.append(o)
    corpus = os.path.join(VERIF, "corpus", "C08")
    if os.path.isdir(corpus):
        for f in sorted(os.listdir(corpus)):
            if f.endswith(".json"):
                add(json.load(open(os.path.join(corpus, f)))["text"], "corpus")
    for f in er_files():
        try:
            add(open(f, encoding="utf-8").read(), "er-file")
        except (UnicodeDecodeError, OSError):
            continue
    n_valid = ctx.scale(900, 12000)
    n_mal = ctx.scale(900, 12000)
    n_noise = ctx.scale(300, 4000)
    progs = []
    for _ in range(n_valid):
        p = gen_program(ctx.rng)
        progs.append(p)
        add(p, "generated")
    for _ in range(n_mal):
        p = ctx.rng.choice(progs)
        q = mutate(ctx.rng, p)
        if ctx.rng.random() < 0.2:
            q = mutate(ctx.rng, q)
        add(q, "malformed")
    for _ in range(n_noise):
        add(gen_noise(ctx.rng), "noise")
    for _ in range(ctx.scale(400, 6000)):
        add(gen_indent_walk(ctx.rng), "indent-walk")
    for _ in range(ctx.scale(500, 8000)):
        add(gen_escape_probe(ctx.rng), "escape-probe")
    for _ in range(ctx.scale(250, 4000)):
        add(gen_bracket_blank_lines(ctx.rng), "bracket-blank-lines")
    if ctx.thorough:
        k = 0
        for p in progs[:1000]:
            for t in all_truncations_inside_strings(p)[:40]:
                add(t, "truncation")
                k += 1
        ctx.cov["exhaustive_truncations"] = "%d truncations at every position inside/around strings, escapes and interpolations of 1000 programs" % k
    ctx.log("%d inputs (%d chars)" % (len(texts), sum(len(t) for t in texts)))
    impl = m.run_impl(texts)
    ctx.log("implementation done")
    mod = m.run_model(texts)
    ctx.log("model done")
    verdicts = m.judge(texts, impl)
    ctx.log("judge done")
    n_corr = 0
    first_corr = None
    corr_cases = []
    failing = []
    for t, o, im, mo, v in zip(texts, origin, impl, mod, verdicts):
        ctx.count(o)
        ntok = sum(1 for i in im if i[0] == "T") if isinstance(im, list) else 0
        nerr = sum(1 for i in im if i[0] == "E") if isinstance(im, list) else 0
        ctx.count("stream with errors" if nerr else ("crash" if isinstance(im, str) else "error-free stream"))
        if isinstance(im, list):
            for i in im:
                if i[0] == "E":
                    ctx.count("err:" + (ERR_NAMES[i[1]] if 0 <= i[1] < len(ERR_NAMES) else "unclassified"))
        nontrivial = (nerr == 0 and ntok >= 5) or (nerr >= 1 and ntok >= 2)
        ctx.case(t, nontrivial=nontrivial, sample={"origin": o, "text": t[:200], "stream": show_items(im)[:12]} if o in ("generated", "malformed", "indent-walk", "escape-probe", "bracket-blank-lines") and len(t) < 200 else None)
        if v[0] != 0:
            failing.append((t, o, im, mo, v))
        elif im != mo:
            n_corr += 1
            corr_cases.append((t, o, im, mo))
            if first_corr is None:
                first_corr = (t, o, im, mo)
    if m.cat_mismatch:
        n_corr += 1
    ctx.cov["streams_compared"] = len(texts)
    wit = [t for t, o in zip(texts, origin) if o == "corpus" and len(t) < 200]
    if wit:
        old = m.run_model(wit, fx=(0, 0))
        oldv = m.judge(wit, [x if isinstance(x, list) else "PANIC" for x in old])
        ctx.cov["refuted_witnesses_on_nofix_model"] = {
            "witnesses": len(wit), "panic": sum(1 for x in old if x == "PANIC"),
            "judge_fails": sum(1 for v in oldv if v[0] != 0)}
    report_failing(ctx, m, failing)
    if failing:
        return
    if n_corr or not proof.ok:
        what = []
        if not proof.ok:
            what.append("theorem(s) no longer check: " + proof.summary())
        if m.cat_mismatch:
            what.append("TokenKind::category differs from the model: %s" % m.cat_mismatch[:3])
        if n_corr:
            what.append("%d inputs on which the model's and the lexer's item streams differ" % n_corr)
        case = None
        cand = []
        for t, o, im, mo in corr_cases[:6]:
            tried = []

            def differs(sub):
                s = "".join(sub)
                d = m.run_impl([s])[0] != m.run_model([s])[0]
                if d:
                    tried.append(s)
                return d
            small = "".join(shrink_list(list(t), differs, budget=200)) if len(t) < 4000 else t
            if case is None:
                case = {"text": small, "origin": o, "impl": show_items(m.run_impl([small])[0]), "model": show_items(m.run_model([small])[0])}
            cand += [small] + tried[-40:]
        # the inputs on which model and lexer differ (and their reductions) are the first candidates for the judge
        if cand:
            ci = m.run_impl(cand)
            cv = m.judge(cand, ci)
            failing = [(t, "shrunk-disagreement", im, None, v) for t, im, v in zip(cand, ci, cv) if v[0] != 0]
            if failing:
                report_failing(ctx, m, failing)
                return
        # search harder for an input that fails the property itself, biased toward the disagreements:
        # every escape letter occurring in a (shrunk) disagreeing input with all boundary hex runs in all string contexts,
        # and local mutations of the disagreeing inputs
        extra = []
        letters = sorted({mm.group(1) for t in cand for mm in re.finditer(r"\\\\(.)", t, re.S)})[:12]
        for l in letters:
            for run in HEX_BOUNDARY + [h.upper() for h in HEX_BOUNDARY[:13]]:
                for opener, closer in [('"', '"'), ('"""', '"""'), ("'''", "'''"), ('"a\\{x}', '"')]:
                    for tail in ["", closer, "\n", "q" + closer]:
                        extra.append("s = " + opener + "\\" + l + run + tail)
        for t in cand[:60]:
            for _ in range(20):
                extra.append(mutate(ctx.rng, t))
        extra += [mutate(ctx.rng, ctx.rng.choice(progs)) for _ in range(ctx.scale(3000, 20000))] + \
                 [gen_program(ctx.rng) for _ in range(ctx.scale(1500, 10000))] + \
                 [gen_escape_probe(ctx.rng) for _ in range(ctx.scale(2000, 10000))] + \
                 [gen_bracket_blank_lines(ctx.rng) for _ in range(ctx.scale(1000, 5000))]
        ei = m.run_impl(extra)
        ev = m.judge(extra, ei)
        failing = [(t, "search", im, None, v) for t, im, v in zip(extra, ei, ev) if v[0] != 0]
        ctx.cov["search_batch"] = len(extra)
        if failing:
            report_failing(ctx, m, failing)
            return
        ctx.violation("broken-correspondence" if n_corr else "broken-theorem", "; ".join(what), case=case,
                      theorem=proof.summary() or None, no_input=True)


def report_failing(ctx, m, failing):
    """shrink and report at most two failing inputs per verdict code"""
    per_code = {}
    for t, o, im, mo, v in sorted(failing, key=lambda f: len(f[0])):
        if per_code.get(v[0], 0) >= 2:
            continue
        per_code[v[0]] = per_code.get(v[0], 0) + 1

        def fails(sub, code=v[0]):
            return m.judge_one("".join(sub))[0][0] == code
        small = "".join(shrink_list(list(t), fails, budget=250)) if len(t) < 6000 else t
        r, im2 = m.judge_one(small)
        if r[0] == 0:
            small, r, im2 = t, v, im
        what = VERDICT[r[0]] % r[1] if "%d" in VERDICT[r[0]] else VERDICT[r[0]]
        tok = None
        if r[0] in (3, 4) and isinstance(im2, list):
            ts = [i for i in im2 if i[0] == "T"]
            if r[1] < len(ts):
                tok = show_items([ts[r[1]]])[0]
        mo2 = m.run_model([small])[0] if len(small) < 20000 else "(not run)"
        ctx.violation("failing-input", "lexer input violating C08: %s%s" % (what, " (%s)" % tok if tok else ""),
                      case={"text": small, "origin": o}, impl=show_items(im2), model=show_items(mo2),
                      judge={"code": r[0], "token": r[1], "meaning": what})


def replay(ctx, path):
    r = json.load(open(path))
    m = Machinery(ctx)
    case = r.get("case") or {}
    t = case.get("text")
    if t is None:
        print("no concrete input in this replay file:", r.get("what"))
        return
    v, im = m.judge_one(t)
    mo = m.run_model([t])[0]
    print("text:", repr(t))
    print("impl: ", show_items(im))
    print("model:", show_items(mo))
    print("judge:", v)
    if v[0] != 0:
        what = VERDICT[v[0]] % v[1] if "%d" in VERDICT[v[0]] else VERDICT[v[0]]
        ctx.violation("failing-input", what, case=case, impl=show_items(im), model=show_items(mo), judge={"code": v[0], "token": v[1]})
    elif im != mo:
        ctx.violation("broken-correspondence", "model and lexer differ on the replayed input", case=case, impl=show_items(im), model=show_items(mo), no_input=True)
