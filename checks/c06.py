"""C06 — subtyping is a preorder with the documented bottom, top and tower.

proof:          coq/Types/Props_C06.v over the model coq/Types/Model.v (transcription of the fragment of
                crates/erg_compiler/context/compare.rs Context::{supertype_of, cheap_/structural_/nominal_supertype_of,
                is_super_pred_of}) and the class table coq/gen/Classes.v
translator:     coq/gen/Classes.v is regenerated on every run from Context::verif_class_table of the live builtin context
                (harness ergv-types) and Type::is_mono_value_class (ty/mod.rs); the theorems are re-checked against it
correspondence: the extracted model and the real Context::subtype_of answer ALL pairs of a generated universe of types
judge:          the laws themselves (coq/Types/Spec.v) evaluated on the implementation's answers: reflexivity, Never / Obj,
                the tower, or-introduction and and-elimination for every pair, enum below its class, transitivity on every
                triple of the universe whose two premises hold
"""
from lib.vplib import *
from pylib.types_gen import *

REGISTRY = dict(
    category="proof",
    text="proof (partial): Coq model of Context::subtype_of on Never/Obj, the builtin classes and traits (table dumped from "
         "the live context), literal enum and interval refinements, unions, intersections, negation and List(T, n); theorems: "
         "termination, reflexivity, bottom/top, tower, T <: T or U, T and U <: T, enum below its class for all types of the "
         "fragment; soundness w.r.t. a set-theoretic reading on the fragment without negation and containers; transitivity on "
         "the sub-fragment where the judgement is complete and (by computation over the table) on all builtin classes and "
         "traits outside the listed gap class. Tied to the code by all-pairs correspondence on a generated universe and by the "
         "laws evaluated on the implementation's answers. Not in the fragment: traits with type arguments, structural types, "
         "subroutine types, free variables.",
    note="Trusted: Coq kernel, extraction (ExtrOcamlBasic) + generic OCaml driver, harness/types (drives Context::subtype_of and "
         "the public type constructors). Known findings: transitivity fails across super-type lists that are not transitively "
         "closed, across List(T, _) vs List(T, n), and for negation types (known/C06.json).",
    technique="Coq proof over hand model + translator (class table) + all-pairs correspondence (extracted model vs Context::subtype_of) "
              "+ laws judged on the implementation's answers",
    design="DESIGN.md §4 C06")

KIND = {0: "Never", 1: "Obj", 2: "nominal", 3: "enum", 4: "interval", 10: "interval", 5: "or", 6: "and", 7: "not", 8: "List(T,_)",
        9: "List(T,n)"}


def to_model(t, ids):
    k = t[0]
    if k == 2:
        return [2, ids[t[1]]]
    if k in (5, 6):
        return [k] + [to_model(x, ids) for x in t[1:]]
    if k in (7, 8):
        return [k, to_model(t[1], ids)]
    if k == 9:
        return [9, to_model(t[1], ids), t[2]]
    if k == 10:
        return [10, to_model(t[1], ids)] + t[2:]
    return t


def translate(ctx, h):
    raw = h.run([[0]])[0]
    if not isinstance(raw, list) or (raw and raw[0] == -999) or len(raw) < 50:
        raise TieBroken("harness types: verif_class_table unusable: %s" % str(raw)[:200])
    rows = parse_table(raw)
    mvc = mono_value_class_names(REPO)
    if not mvc:
        raise TieBroken("translator: Type::is_mono_value_class not found in crates/erg_compiler/ty/mod.rs")
    text = classes_v(rows, mvc)
    if text is None:
        raise TieBroken("translator: a builtin type the model refers to (%s) is no longer registered" % ", ".join(NAMED))
    ctx.write_gen("Classes", text)
    ids = {}
    for r in rows:
        ids.setdefault(r["name"], r["id"])
    return rows, ids


def has_kind(t, kinds):
    if t[0] in kinds:
        return True
    return t[0] in (5, 6, 7, 8, 9, 10) and any(has_kind(x, kinds) for x in t[1:] if isinstance(x, list))


KNOWN_CLASS = {1: "negation", 2: "list-length", 3: "list-metatype", 4: "nominal-gap"}


def run(ctx):
    ctx.cov["rule"] = ("universe = Never, Obj, every builtin nominal type without type arguments (dumped from the live context), "
                       "enums and intervals, all unions of pairs of a core set, intersections, negations, List(T, _) / List(T, n), "
                       "depth <= 2; evaluations = pairs of the universe (model vs Context::subtype_of) + law instances; "
                       "non-trivial = distinct pair on which subtype_of answers true and the two types differ")
    ctx.cov["trusted_base"] = ["Coq 8.16.1 kernel", "extraction (ExtrOcamlBasic only) + extract/driver.ml",
                               "harness/types/src/main.rs (Context::subtype_of, ty::constructors, verif_class_table hook)",
                               "pylib/types_gen.py (universe, Classes.v translator)"]
    ctx.assumptions = ["literals are small (i32, exact in f64); enums are homogeneous (v_enum); a Nat-based interval has bounds >= 0 "
                       "(what the lowering of `lo..hi` produces)",
                       "set-theoretic reading: Bool = {0, 1} as Type::into_refinement documents it (True == 1)"]
    h = Harness(ctx, "types")
    rows, ids = translate(ctx, h)
    proof = ctx.coq(["Types/Props_C06.v"])
    model = ctx.model("Types")
    names = [r["name"] for r in rows if not r["poly"]]
    U = universe(names)
    n = len(U)
    MU = [to_model(t, ids) for t in U]
    impl = h.run([[1, U]])[0]
    if not isinstance(impl, list) or len(impl) != n:
        raise TieBroken("harness types: matrix answer unusable: %s" % str(impl)[:200])
    mod = model.run([[0, MU]])[0]
    E = [erg(t) for t in U]
    for t in U:
        ctx.count(KIND[t[0]])
    # ---- correspondence on all pairs
    diffs = []
    for i in range(n):
        ri, rm = impl[i], mod[i]
        for j in range(n):
            if ri[j] != rm[j]:
                diffs.append((i, j))
            if i != j:
                ctx.case([MU[i], MU[j]], nontrivial=(ri[j] == 1), sample={"sub": E[i], "sup": E[j], "subtype_of": ri[j]} if ri[j] == 1 and (i * 7 + j) % 5000 == 0 else None)
    ctx.cov["pairs_compared"] = n * n
    ctx.cov["universe"] = n
    npanic = sum(1 for r in impl for b in r if b == 2)
    # ---- the laws on the implementation's answers
    viol = []   # (law, what, case)
    for i in range(n):
        if impl[i][i] != 1:
            viol.append(("reflexivity", "%s <: %s is %s" % (E[i], E[i], impl[i][i]), {"law": "refl", "t": U[i]}))
    i_never, i_obj = 0, 1
    for j in range(n):
        if impl[i_never][j] != 1:
            viol.append(("bottom", "Never <: %s is %s" % (E[j], impl[i_never][j]), {"law": "never", "t": U[j]}))
        if impl[j][i_obj] != 1:
            viol.append(("top", "%s <: Obj is %s" % (E[j], impl[j][i_obj]), {"law": "obj", "t": U[j]}))
    idx = {e: i for i, e in enumerate(E)}
    for a in range(len(TOWER)):
        for b in range(a + 1, len(TOWER)):
            if impl[idx[TOWER[a]]][idx[TOWER[b]]] != 1:
                viol.append(("tower", "%s <: %s is false" % (TOWER[a], TOWER[b]), {"law": "tower", "s": mono(TOWER[a]), "t": mono(TOWER[b])}))
    # or-introduction / and-elimination for every ordered pair (quick: a seeded sample of rows; thorough: all)
    rows_sel = list(range(n)) if ctx.thorough else sorted(ctx.rng.sample(range(n), min(n, 90)))
    cases = [[3, [U[i]], [or_(U[i], u) for u in U]] for i in rows_sel] + [[3, [and_(U[i], u) for u in U], [U[i]]] for i in rows_sel]
    out = h.run(cases)
    m = len(rows_sel)
    for a, i in enumerate(rows_sel):
        for j in range(n):
            ctx.cov["evaluations"] += 2
            if out[a][0][j] != 1:
                viol.append(("or-introduction", "%s <: (%s or %s) is false" % (E[i], E[i], E[j]), {"law": "or_intro", "t": U[i], "u": U[j]}))
            if out[m + a][j][0] != 1:
                viol.append(("and-elimination", "(%s and %s) <: %s is false" % (E[i], E[j], E[i]), {"law": "and_elim", "t": U[i], "u": U[j]}))
    ctx.count("or-intro/and-elim instances", 2 * m * n)
    # enum below its class
    enums = [t for t in U if t[0] == 3]
    cls = [mono({0: "Nat", 1: "Str", 2: "Bool", 3: "NoneType", 4: "Float"}[t[1][0]] if not (t[1][0] == 0 and t[1][1] < 0) else "Int") for t in enums]
    so = h.run([[3, [e], [c]] for e, c in zip(enums, cls)])
    for e, c, o in zip(enums, cls, so):
        if o[0][0] != 1:
            viol.append(("singleton-below-class", "%s <: %s is false" % (erg(e), erg(c)), {"law": "singleton", "t": e}))
    # transitivity on every triple whose premises hold; a failing instance is classified by the Coq predicate known_trans
    below = [[j for j in range(n) if impl[i][j] == 1 and j != i] for i in range(n)]
    ntr = 0
    failing = []
    for i in range(n):
        ri = impl[i]
        for j in below[i]:
            for k in below[j]:
                ntr += 1
                if ri[k] != 1:
                    failing.append((i, j, k))
    known = collections_counter()
    first_known = {}
    if failing:
        cls_of = model.run([[6] + [[MU[i], MU[j], MU[k]] for i, j, k in failing]])[0]
        for (i, j, k), c in zip(failing, cls_of):
            if c == 0:
                viol.append(("transitivity", "%s <: %s and %s <: %s but not %s <: %s" % (E[i], E[j], E[j], E[k], E[i], E[k]),
                             {"law": "trans", "s": U[i], "m": U[j], "t": U[k]}))
            else:
                known[KNOWN_CLASS[c]] += 1
                first_known.setdefault(KNOWN_CLASS[c], (E[i], E[j], E[k]))
    # "a program may pass a value wherever a supertype of its type is expected": on the fragment of sub_sound, every pair the
    # implementation judges S <: T is checked against the set-theoretic reading on a pool of values (den, extracted)
    POOL = [[2, 0], [2, 1]] + [[0, z] for z in (-4, -3, -1, 0, 1, 2, 3, 4, 5, 6, 9, 10, 11, 100)] + [[4, 15], [4, 10], [4, -15]] + \
           [[1, "a"], [1, "b"], [1, ""]] + [[3]] + [[5], [5, [0, 1]], [5, [1, "a"]]]
    fr = model.run([[5, MU]])[0]
    frag_idx = [i for i in range(n) if fr[i][1] == 1]
    dens = dict(zip(frag_idx, model.run([[2, MU[i], POOL] for i in frag_idx]))) if frag_idx else {}
    nsound = 0
    for i in frag_idx:
        di = dens[i]
        for j in frag_idx:
            if impl[i][j] == 1 and i != j:
                nsound += 1
                dj = dens[j]
                for k in range(len(POOL)):
                    if di[k] == 1 and dj[k] != 1:
                        viol.append(("soundness", "%s <: %s is judged, but %s is a value of the first and not of the second" % (
                            E[i], E[j], pool_erg(POOL[k])), {"law": "sound", "s": U[i], "t": U[j], "value": POOL[k]}))
                        break
    ctx.cov["evaluations"] += nsound
    ctx.count("soundness instances (pairs judged true on the fragment of sub_sound)", nsound)
    ctx.cov["transitivity_triples_with_premises"] = ntr
    ctx.cov["evaluations"] += ntr
    ctx.count("transitivity instances", ntr)
    ctx.cov["known_class_instances"] = dict(known)
    for kf in known_entries("C06"):
        c = kf.get("class")
        if c in known:
            ctx.known_finding(kf, "%s [%d instances in this run, e.g. %s <: %s <: %s]" % ((kf["what"], known[c]) + first_known[c]))
        elif c:
            ctx.notes.append("NOTE stale-known-finding %s: no instance in this run" % kf["id"])
    if npanic:
        i, j = next((i, j) for i in range(n) for j in range(n) if impl[i][j] == 2)
        ctx.violation("failing-input", "Context::subtype_of panics on %s <: %s" % (E[i], E[j]), case={"law": "total", "s": U[i], "t": U[j]}, impl=2)
    # ---- verdict
    seen = set()
    for law, what, case in viol:
        if law in seen:
            continue
        seen.add(law)
        ctx.violation("failing-input", "%s fails on the implementation: %s (%d instances of this law fail)" % (law, what, sum(1 for v in viol if v[0] == law)),
                      case=case, impl=False, judge="law %s violated" % law)
    if not viol and not npanic and (diffs or not proof.ok):
        what = []
        if not proof.ok:
            what.append("theorem(s) no longer check: " + proof.summary())
        fd = None
        if diffs:
            i, j = diffs[0]
            fd = {"s": U[i], "t": U[j], "erg": "%s <: %s" % (E[i], E[j]), "impl": impl[i][j], "model": mod[i][j]}
            what.append("%d of %d pairs on which model and Context::subtype_of differ, first: %s <: %s impl=%s model=%s" % (
                len(diffs), n * n, E[i], E[j], impl[i][j], mod[i][j]))
        ctx.violation("broken-correspondence" if diffs else "broken-theorem", "; ".join(what), case=fd, theorem=proof.summary() or None, no_input=True)


def pool_erg(v):
    if v[0] == 5:
        return "[" + ", ".join(lit_erg(x) for x in v[1:]) + "]"
    return lit_erg(v) if not (v[0] == 4 and v[1] < 0) else "-" + lit_erg([4, -v[1]])


def collections_counter():
    import collections
    return collections.Counter()


def replay(ctx, path):
    r = json.load(open(path))
    h = Harness(ctx, "types")
    c = r["case"] or {}
    law = c.get("law")
    q = None
    if law == "refl":
        q = (c["t"], c["t"])
    elif law == "never":
        q = ([0], c["t"])
    elif law == "obj":
        q = (c["t"], [1])
    elif law in ("tower", "total"):
        q = (c["s"], c["t"])
    elif law == "or_intro":
        q = (c["t"], or_(c["t"], c["u"]))
    elif law == "and_elim":
        q = (and_(c["t"], c["u"]), c["t"])
    elif law == "singleton":
        t = c["t"]
        k = t[1][0]
        q = (t, mono({0: "Nat", 1: "Str", 2: "Bool", 3: "NoneType", 4: "Float"}[k] if not (k == 0 and t[1][1] < 0) else "Int"))
    if q:
        o = h.run([[3, [q[0]], [q[1]]]])[0][0][0]
        print("subtype_of(%s, %s) = %s" % (erg(q[0]), erg(q[1]), o))
        if o != 1:
            ctx.violation("failing-input", "law %s: %s <: %s is %s" % (law, erg(q[0]), erg(q[1]), o), case=c, impl=o)
    elif law == "sound":
        o = h.run([[3, [c["s"]], [c["t"]]]])[0][0][0]
        print("subtype_of(%s, %s) = %s; value %s" % (erg(c["s"]), erg(c["t"]), o, pool_erg(c["value"])))
        if o == 1:
            ctx.violation("failing-input", "judged a subtype although %s is a value of the first type only" % pool_erg(c["value"]), case=c, impl=o)
    elif law == "trans":
        o = h.run([[3, [c["s"], c["m"], c["s"]], [c["m"], c["t"], c["t"]]]])[0]
        st, mt, stt = o[0][0], o[1][1], o[2][2]
        print("%s <: %s = %s; %s <: %s = %s; %s <: %s = %s" % (erg(c["s"]), erg(c["m"]), st, erg(c["m"]), erg(c["t"]), mt, erg(c["s"]), erg(c["t"]), stt))
        if st == 1 and mt == 1 and stt != 1:
            ctx.violation("failing-input", "transitivity fails", case=c, impl=[st, mt, stt])
    else:
        rows, ids = translate(ctx, h)
        model = ctx.model("Types")
        s, t = c.get("s"), c.get("t")
        if s and t:
            o = h.run([[3, [s], [t]]])[0][0][0]
            m = model.run([[1, [to_model(s, ids)], [to_model(t, ids)]]])[0][0][0]
            print("subtype_of(%s, %s): impl %s model %s" % (erg(s), erg(t), o, m))
