"""C14 — emitted code objects are structurally valid for the target interpreter.

proof:          coq/CodeValid/Props_C14.v: soundness of the validator `valid_code` (coq/CodeValid/Model.v) w.r.t. the path
                semantics of coq/CodeValid/Spec.v — for every code object and every path, no bound.  The depth part is a
                verified checker (`check_annot`) of an interval annotation produced by an unverified fixpoint iteration.
tie:            the validator is run on the REAL code objects: every program is compiled by the erg binary built from the
                working tree for each target version, each .pyc is loaded by the MATCHING interpreter, every code object
                (recursively) is validated.  Opcode tables (coq/gen/PyOps.v) and stack effects are dumped from the
                interpreters' own `dis` on every run.
model check:    the interpreter-side definitions of the model (decoding, jump targets, PyCode_Addr2Line, depth analysis)
                are compared with the interpreter itself on the same objects (dis.get_instructions, PyCode_Addr2Line via
                ctypes, an independent python abstract interpreter on dis.stack_effect), on code compiled by CPython's own
                compiler, and on random line tables.
judge:          the validator (it is the property); a rejection names program, version, code object and clause.
"""
import hashlib
import shutil

from lib.vplib import *
from lib import vplib
from pylib import c14_tables as T
from pylib import c14_run as R
from pylib import c14_gen as GEN

REGISTRY = dict(
    category="proof",
    text="Verified validator for CPython code objects (Coq, coq/CodeValid): acceptance implies stacksize >= depth on every path "
         "(abstract interpretation over the interpreter's own dis.stack_effect, certificate checked by a proved checker), all "
         "jumps/fall-throughs on instruction boundaries inside the code, all const/name/local/free indices in range, and "
         "PyCode_Addr2Line of every instruction inside 1..lines(src); run on every code object of every corpus and generated "
         "program compiled by erg for 3.7, 3.8, 3.9, 3.10, 3.11 and loaded by the matching interpreter.",
    note="Trusted: Coq kernel, extraction (ExtrOcamlBasic) + generic OCaml driver, the python dump of each interpreter's dis "
         "tables/stack effects (pylib/c14_probe.py), the hand-listed no-fall-through opcodes and the 3.7 jump/fall-through split "
         "(pylib/c14_tables.py, cross-checked against 3.8), the transcription of instruction decoding and PyCode_Addr2Line "
         "(compared with the interpreters on every run). 3.7 objects containing END_FINALLY/WITH_CLEANUP_*/POP_EXCEPT: depth "
         "clause not checked (3.7's dis.stack_effect is no per-path oracle for them). 3.11 exception tables are not modelled "
         "(erg emits none; a non-empty one is rejected).",
    technique="Coq-verified validator (certificate checker for the stack-depth fixpoint) applied to real .pyc output per target "
              "version + correspondence of the interpreter model with dis / PyCode_Addr2Line",
    design="DESIGN.md §4 C14")

CLAUSES = ["decode", "exception-table", "stacksize", "jump", "index", "line"]


# ------------------------------------------------------------------ programs
def corpus_programs(work):
    """copy /repo/examples and /repo/tests/should_ok (whole trees: imports of sibling modules) into the work dir"""
    out = []
    for sub in ["examples", os.path.join("tests", "should_ok")]:
        src = os.path.join(vplib.REPO, sub)
        dst = os.path.join(work, "corpus", sub.replace(os.sep, "_"))
        if os.path.isdir(src):
            shutil.copytree(src, dst, ignore=shutil.ignore_patterns("*.pyc", "__pycache__"))
            for f in sorted(os.listdir(dst)):
                if f.endswith(".er") and not f.endswith(".d.er"):
                    out.append({"id": "%s/%s" % (sub.replace(os.sep, "_"), f), "path": os.path.join(dst, f), "kind": "corpus", "cwd": dst})
    return out


def regression_programs(work):
    out = []
    d = os.path.join(VERIF, "corpus", "C14")
    dst = os.path.join(work, "regr")
    os.makedirs(dst, exist_ok=True)
    if os.path.isdir(d):
        for f in sorted(os.listdir(d)):
            if f.endswith(".json"):
                j = json.load(open(os.path.join(d, f)))
                p = os.path.join(dst, f[:-5] + ".er")
                open(p, "w").write(j["program"])
                out.append({"id": "regr/" + f, "path": p, "kind": "regression", "cwd": dst, "versions": j.get("versions")})
    return out


def generated_programs(ctx, work, n):
    dst = os.path.join(work, "gen")
    os.makedirs(dst, exist_ok=True)
    open(os.path.join(dst, "c14_input.txt"), "w").write("x\n")
    out = []
    for i in range(n):
        kind, txt = GEN.gen_program(ctx.rng)
        p = os.path.join(dst, "g%04d_%s.er" % (i, kind))
        open(p, "w").write(txt)
        out.append({"id": "gen/g%04d_%s" % (i, kind), "path": p, "kind": "gen-" + kind, "cwd": dst, "text": txt})
    return out


def geometry_programs(ctx, work):
    """line-geometry grid (pylib/c14_gen.py): gap before a construct x lines of its body x kind of construct; enumerated
    in thorough, a seeded sample (half of it from the cells whose sums cross a byte boundary) in quick.  Compiled for the
    targets whose line-table format erg writes (<= 3.9); 3.10/3.11 tables are under the known finding."""
    dst = os.path.join(work, "geo")
    os.makedirs(dst, exist_ok=True)
    if ctx.thorough:
        cells = GEN.geometry_grid()
        ctx.rng.shuffle(cells)
        ctx.cov["line_geometry"] = "all %d cells of %d gaps x %d body lengths x %d shapes" % (
            len(cells), len(GEN.GAPS), len(GEN.BODIES), len(GEN.SHAPES))
    else:
        cells = GEN.sample_cells(ctx.rng, 32)
        ctx.cov["line_geometry"] = "%d sampled cells of the %d-cell grid" % (len(cells), len(GEN.geometry_grid()))
    out = []
    for i in range(0, len(cells), 4):
        chunk = cells[i:i + 4]
        txt = GEN.geometry_program(ctx.rng, chunk, uid0=i)
        p = os.path.join(dst, "geo%04d.er" % i)
        open(p, "w").write(txt)
        out.append({"id": "geo/geo%04d" % i, "path": p, "kind": "gen-geometry", "cwd": dst, "text": txt,
                    "versions": ["3.7", "3.8", "3.9"], "cells": chunk, "timeout": 900})
        for g, n, shape in chunk:
            ctx.count("geometry:" + shape)
    return out


def build_jobs(progs, probes, work, versions=None):
    explicit = versions is not None
    versions = versions or T.VERSIONS
    jobs = []
    for p in progs:
        for v in (versions if explicit else (p.get("versions") or versions)):
            h = hashlib.sha1(p["id"].encode()).hexdigest()[:10]
            jobs.append(dict(src=p["path"], ver=v, magic=probes[v]["magic"], cwd=p["cwd"], prog=p,
                             outdir=os.path.join(work, "out", v, h), timeout=p.get("timeout", 180)))
    # long programs first, so that they do not end up alone at the tail of the pool
    jobs.sort(key=lambda j: -os.path.getsize(j["src"]))
    return jobs


# ------------------------------------------------------------------ validation of a batch
class Batch:
    """compile -> dump -> validate; keeps per-object results"""

    def __init__(self, ctx, probes, model, erg, work):
        self.ctx, self.probes, self.model, self.erg, self.work = ctx, probes, model, erg, work

    def run(self, progs, versions=None):
        t0 = time.time()
        jobs = R.compile_jobs(self.erg, self.ctx.erg_env(), build_jobs(progs, self.probes, self.work, versions))
        self.t_compile = getattr(self, "t_compile", 0) + time.time() - t0
        results = []   # dict(prog, ver, rec, out, clauses, corr)
        self.failed = [j for j in jobs if "pyc" not in j]
        for v in (versions or T.VERSIONS):
            js = [j for j in jobs if j["ver"] == v and "pyc" in j]
            by_pyc = {j["pyc"]: j for j in js}
            t0 = time.time()
            recs = R.dump_objects(v, [(j["pyc"], j["src"]) for j in js], self.work)
            self.t_dump = getattr(self, "t_dump", 0) + time.time() - t0
            good = [r for r in recs if "load_error" not in r]
            for r in recs:
                if "load_error" in r:
                    results.append(dict(prog=by_pyc[r["pyc"]]["prog"], ver=v, rec=r, out=None,
                                        clauses=[("load", "the matching interpreter cannot unmarshal the .pyc: " + r["load_error"])], corr=[]))
            cases = [R.make_case(v, self.probes[v], r, R.count_lines(r["src"])) for r in good]
            t0 = time.time()
            outs = self.model.run(cases) if cases else []
            self.t_model = getattr(self, "t_model", 0) + time.time() - t0
            t0 = time.time()
            for r, o in zip(good, outs):
                cl = R.clauses(o)
                results.append(dict(prog=by_pyc[r["pyc"]]["prog"], ver=v, rec=r, out=o, clauses=cl,
                                    corr=R.compare(v, self.probes[v], r, o),
                                    ref_depth=R.reference(v, self.probes[v], r) if any(c[0] == "stacksize" for c in cl) else None))
            self.t_cmp = getattr(self, "t_cmp", 0) + time.time() - t0
        return results


def describe(res):
    r = res["rec"]
    return "%s [py %s] code object %s (path %s): %s" % (
        res["prog"]["id"], res["ver"], r.get("name"), r.get("qual"), "; ".join("%s: %s" % c for c in res["clauses"]))


def interpreter_view(res):
    """what the target interpreter itself says about the rejected object (confirmation, not the verdict)"""
    r = res["rec"]
    v = {"dis_error": r.get("dis_error")}
    names = set(c[0] for c in res["clauses"])
    if "line" in names and r.get("ref_lines") is not None:
        n = R.count_lines(r["src"])
        v["PyCode_Addr2Line outside 1..%d" % n] = [x for x in r["ref_lines"] if not (1 <= x[1] <= n)][:5]
    if "stacksize" in names:
        v["python abstract interpreter on dis.get_instructions + dis.stack_effect"] = res.get("ref_depth")
    if "jump" in names and r.get("ref_instrs") is not None:
        offs = set(x[0] for x in r["ref_instrs"])
        v["dis jump targets that are no instruction offset"] = [x for x in r["ref_instrs"] if x[3] >= 0 and x[3] not in offs][:5]
    return v


# ------------------------------------------------------------------ known findings
def known_class(res):
    """which listed finding (known/C14.json id) explains ALL violated clauses of this object; None if not all explained"""
    o = res["out"]
    if o is None or o[0] != 1:
        return None
    names = set(c[0] for c in res["clauses"])
    if names == {"line"} and o[9] == 1:           # Known_C14 (Coq predicate, extracted): target >= 3.10
        return "C14-linetable-format-310"
    if names == {"line"} and o[9] == 2:           # Known_C14: inside a linked module body
        return "C14-linked-module-filename"
    return None


# ------------------------------------------------------------------ model validation against the interpreters
STDLIB = ["textwrap.py", "bisect.py", "heapq.py", "fnmatch.py", "shlex.py", "colorsys.py", "glob.py", "contextlib.py",
          "queue.py", "json/decoder.py", "stat.py", "keyword.py", "copy.py", "reprlib.py", "string.py", "sched.py",
          "fractions.py", "statistics.py", "csv.py", "getopt.py", "dis.py", "ast.py", "argparse.py", "difflib.py",
          "tokenize.py", "zipfile.py", "tarfile.py", "inspect.py", "pickle.py", "threading.py", "typing.py", "enum.py",
          "dataclasses.py", "functools.py", "collections/__init__.py", "random.py", "decimal.py", "_pydecimal.py",
          "subprocess.py", "socket.py", "logging/__init__.py", "unittest/case.py", "email/message.py", "http/client.py"]


def cpython_selftest(ctx, probes, model, work, nfiles):
    """the model's view of code compiled by CPython's own compiler must agree with the interpreter, and the validator must
    accept it (apart from the documented exclusions)"""
    bad = []
    stats = {}
    for v in T.VERSIONS:
        py = PY_VERSIONS[v]
        lib = os.path.join(os.path.dirname(os.path.dirname(py)), "lib", "python" + v)
        dst = os.path.join(work, "cpy", v)
        os.makedirs(dst, exist_ok=True)
        pairs = []
        lf = os.path.join(dst, "list")
        with open(lf, "w") as f:
            for k, name in enumerate(STDLIB[:nfiles]):
                src = os.path.join(lib, name)
                if os.path.exists(src):
                    out = os.path.join(dst, "m%d.pyc" % k)
                    f.write("%s\t%s\n" % (src, out))
                    pairs.append((out, src))
        sh([py, T.PROBE, "pycompile", lf], check=True)
        recs = [r for r in R.dump_objects(v, [p for p in pairs if os.path.exists(p[0])], work) if "load_error" not in r]
        cases = [R.make_case(v, probes[v], r, R.count_lines(r["src"])) for r in recs]
        outs = model.run(cases) if cases else []
        acc = rej = skip = skipu = 0
        unsupported = set(row[0] for row in T.op_rows(v, probes[v]) if row[2] == 3)
        for r, o in zip(recs, outs):
            c = R.compare(v, probes[v], r, o)
            if c:
                bad.append("[cpython %s] %s %s: %s" % (v, r["src"], r["name"], c[0]))
            if o[0] != 1:
                rej += 1
                bad.append("[cpython %s] %s %s: validator cannot decode code compiled by CPython" % (v, r["src"], r["name"]))
                continue
            if r["exclen"] > 0:
                skip += 1
                continue
            if any(r["code"][k] in unsupported for k in range(0, len(r["code"]), 2)):
                skipu += 1      # BREAK_LOOP (3.7) / CALL_FINALLY (3.8): implicit control transfer, never emitted by erg
                continue
            # everything but the line clause must be accepted (CPython gives RESUME / synthetic instructions line 0 / no line)
            if o[7] == 1:
                acc += 1
            else:
                rej += 1
                bad.append("[cpython %s] %s %s: validator rejects code compiled by CPython: %s" % (v, r["src"], r["name"], R.clauses(o)[:2]))
        stats[v] = {"objects": len(recs), "accepted": acc, "rejected": rej, "skipped_exception_table": skip,
                    "skipped_implicit_control_opcodes": skipu}
    return bad, stats


def linetable_fuzz(ctx, probes, model, work, n):
    """random and erg-shaped line tables: Model.line_at vs PyCode_Addr2Line"""
    rng = ctx.rng
    bad = []
    total = 0
    for v in ["3.8", "3.9", "3.10", "3.11"]:
        cases = []
        for _ in range(n):
            k = rng.random()
            ln = rng.choice([0, 1, 2, 3, 4, 6, 8, 9, 12, 20])
            if k < 0.4:
                tab = [rng.choice([0, 1, 2, 4, 6, 8, 20, 127, 128, 200, 254, 255]) if i % 2 == 0 else rng.choice([0, 1, 2, 3, 5, 127, 128, 129, 200, 255])
                       for i in range(ln)]
            elif k < 0.7:
                tab = [rng.randint(0, 255) for _ in range(ln)]
            else:
                tab = [rng.choice([0x80, 0x81, 0x88, 0xd0, 0xd8, 0xe0, 0xe8, 0xf0, 0xf8, 0xff, 0x3f, 0x40, 0x41, 1, 2, 0]) | rng.choice([0, 0, 1, 7]) for _ in range(ln)]
            first = rng.choice([0, 1, 1, 5, 100])
            addrs = [2 * a for a in range(0, rng.choice([4, 10, 40, 300]))]
            cases.append([first, tab, addrs])
        jf = os.path.join(work, "fuzz-%s.json" % v)
        json.dump(cases, open(jf, "w"))
        p = sh([PY_VERSIONS[v], T.PROBE, "fuzzlines", jf], check=True)
        ref = json.loads(p.stdout)
        outs = model.run([[1, T.VID[v], c[0], c[1], c[2]] for c in cases])
        for c, r, o in zip(cases, ref, outs):
            total += 1
            mine = [(x[1] if x[0] == 0 else -1 if x[0] == 1 else "bad") for x in o]
            if r is None:
                continue   # the C decoder would read past the table; the model says LBad somewhere or never gets there
            # undefined behaviour in C (varint shifted by >= 32 bits: LBad in the model; int overflow of the line): skip
            r = [y if (x != "bad" and (x == -1 or abs(x) < 2 ** 31)) else x for x, y in zip(mine, r)]
            if mine != r:
                k = next(i for i in range(len(r)) if mine[i] != r[i])
                bad.append("[line table %s] first=%d table=%s addr=%d: model %s, PyCode_Addr2Line %s" % (v, c[0], c[1], c[2][k], mine[k], r[k]))
    return bad, total


# ------------------------------------------------------------------ shrinking
def split_chunks(text):
    """top-level chunks of a program (a line starting in column 0 starts a chunk; blank/comment lines stay attached)"""
    chunks = []
    cur = []
    for line in text.split("\n"):
        if line and not line[0].isspace() and not line.startswith("#") and cur and any(l.strip() for l in cur):
            chunks.append(cur)
            cur = []
        cur.append(line)
    if cur:
        chunks.append(cur)
    return chunks


def shrink_program(batch, res, budget=24):
    text = res["prog"].get("text") or open(res["prog"]["path"]).read()
    want = set(c[0] for c in res["clauses"])
    ver = res["ver"]
    d = os.path.join(batch.work, "shrink")
    os.makedirs(d, exist_ok=True)
    counter = [0]

    def fails(chunks):
        counter[0] += 1
        p = os.path.join(d, "s%d.er" % counter[0])
        open(p, "w").write("\n".join("\n".join(c) for c in chunks) + "\n")
        rs = batch.run([{"id": "shrink/%d" % counter[0], "path": p, "kind": "shrink", "cwd": res["prog"]["cwd"]}], [ver])
        return any(want & set(c[0] for c in r["clauses"]) and known_class(r) is None for r in rs)
    chunks = split_chunks(text)
    if len(chunks) > 1 and res["prog"]["kind"] != "corpus":
        chunks = shrink_list(chunks, fails, budget=budget)
    return "\n".join("\n".join(c) for c in chunks) + "\n"


# ------------------------------------------------------------------ run
def setup(ctx):
    probes = T.probe_all()
    ctx.write_gen("PyOps", T.gen_pyops(probes))
    proof = ctx.coq(["CodeValid/Props_C14.v"])
    erg = ctx.erg_bin()
    model = ctx.model("CodeValid")
    work = os.path.join(vplib.CACHE, "tmp", "c14-%d" % os.getpid())
    shutil.rmtree(work, ignore_errors=True)
    os.makedirs(work)
    return probes, proof, erg, model, work


def run(ctx):
    ctx.cov["rule"] = ("one case = one code object (recursively through co_consts) of one program compiled by erg for one target "
                       "version and loaded by that interpreter; programs: every .er under examples/ and tests/should_ok/ that compiles "
                       "(quick: a seeded sample), regression corpus, generated programs (definitions, arithmetic, closures, lambdas, "
                       "if/match, for!/while!, procedures, classes, collections, with!, >256 names/constants, long jumps, line gaps "
                       ">127/>255, long lines); plus a line-geometry grid (gap before a construct x body lines x def/lambda/class/nested, values around 127/128/255/256) for "
                       "the <= 3.9 targets; non-trivial = distinct (version, bytecode, line table, stacksize) with >= 4 instructions")
    ctx.cov["trusted_base"] = ["Coq 8.16.1 kernel", "extraction (ExtrOcamlBasic only) + extract/driver.ml",
                               "pylib/c14_probe.py (dump of dis tables, dis.stack_effect, code object fields by each target interpreter)",
                               "pylib/c14_tables.py: hand-listed no-fall-through opcodes, 3.7 jump/fall-through split (checked against 3.8)",
                               "Model.v transcription of instruction decoding and PyCode_Addr2Line (compared with dis / ctypes on every run)"]
    ctx.assumptions = ["paths = all syntactic paths of the decoded control-flow graph with dis.stack_effect(jump=True/False) per edge; "
                       "conditions are not interpreted",
                       "3.7: code objects containing END_FINALLY / WITH_CLEANUP_* / POP_EXCEPT are validated without the depth clause",
                       "3.11 exception tables are not modelled: a code object with a non-empty co_exceptiontable is rejected",
                       "a line inside the source file = 1..number of lines of the .er file the program was compiled from; 'no line' "
                       "(3.10 -128 / uncovered address, 3.11 code 15) is not a line"]
    probes, proof, erg, model, work = setup(ctx)
    try:
        return run_in(ctx, probes, proof, erg, model, work)
    finally:
        shutil.rmtree(work, ignore_errors=True)


def run_in(ctx, probes, proof, erg, model, work):
    batch = Batch(ctx, probes, model, erg, work)
    corpus = corpus_programs(work)
    if not ctx.thorough:
        corpus = ctx.rng.sample(corpus, min(len(corpus), 12))
    progs = regression_programs(work) + corpus + generated_programs(ctx, work, ctx.scale(14, 300)) + geometry_programs(ctx, work)
    ctx.log("compiling %d programs x up to %d versions" % (len(progs), len(T.VERSIONS)))
    results = batch.run(progs)
    ctx.log("validated %d code objects (compile %.0fs, dump %.0fs, validator %.0fs, reference %.0fs)" % (
        len(results), batch.t_compile, batch.t_dump, batch.t_model, batch.t_cmp))
    # ---- compile failures: not this property's business unless nothing compiles
    nfail = len(batch.failed)
    ctx.cov["compile_failed"] = nfail
    ctx.cov["compiler_crashes_seen"] = sorted(set(j["prog"]["id"] for j in batch.failed if j.get("crash")))[:10]
    # a generated line-geometry program that does not compile (or times out) is a hole in the coverage: say so loudly
    geo_failed = sorted(set(j["prog"]["id"] for j in batch.failed if j["prog"]["kind"] == "gen-geometry"))
    ctx.cov["line_geometry_programs_not_compiled"] = len(geo_failed)
    if geo_failed:
        first = [j for j in batch.failed if j["prog"]["id"] == geo_failed[0]][0]
        ctx.notes.append("line-geometry programs not compiled: %s (first: %s)" % (geo_failed[:8], first.get("error", "")[-200:]))
        ctx.log("WARNING %d line-geometry programs did not compile: %s" % (len(geo_failed), first.get("error", "")[-200:]))
    compiled = set((r["prog"]["id"]) for r in results)
    if not compiled:
        raise TieBroken("no program compiles with the erg binary of this tree (first error: %s)" % (batch.failed[0].get("error") if batch.failed else "none"))
    # ---- model validation
    corr = []
    for r in results:
        for c in r["corr"]:
            corr.append("%s [py %s] %s: %s" % (r["prog"]["id"], r["ver"], r["rec"].get("name"), c))
    sbad, sstats = cpython_selftest(ctx, probes, model, work, ctx.scale(5, len(STDLIB)))
    fbad, ftotal = linetable_fuzz(ctx, probes, model, work, ctx.scale(250, 6000))
    ctx.cov["cpython_compiled_objects"] = sstats
    ctx.cov["line_tables_fuzzed"] = ftotal
    corr += sbad + fbad
    # ---- verdicts
    per_ver = {v: {"objects": 0, "valid": 0, "known": 0, "rejected": 0} for v in T.VERSIONS}
    new = []
    known_hits = {}
    known_count = {}
    fuel = []
    for r in results:
        pv = per_ver[r["ver"]]
        pv["objects"] += 1
        o = r["out"]
        rec = r["rec"]
        ninstr = len(o[10]) if (o and o[0] == 1) else 0
        canon = [r["ver"], hashlib.sha1(json.dumps([rec.get("code"), rec.get("linetable"), rec.get("stacksize")]).encode()).hexdigest()]
        ctx.case(canon, nontrivial=ninstr >= 4,
                 sample={"program": r["prog"]["id"], "version": r["ver"], "code_object": rec.get("name"), "instructions": ninstr,
                         "stacksize": rec.get("stacksize"), "max_depth": (o[3][3] if o and o[0] == 1 else None),
                         "violated": [c[0] for c in r["clauses"]]} if r["prog"]["kind"] != "corpus" or ninstr > 20 else None)
        ctx.count("py" + r["ver"])
        ctx.count("kind:" + r["prog"]["kind"])
        if o and o[0] == 1:
            ext = probes[r["ver"]]["extended_arg"]
            code = rec["code"]
            if any(code[k] == ext for k in range(0, len(code), 2)):
                ctx.count("has EXTENDED_ARG")
            if any(i[5] >= 0 for i in o[10]):
                ctx.count("has jump")
            if any(0 <= i[5] <= i[0] for i in o[10]):
                ctx.count("has backward jump")
            if o[3][0] == 3:
                ctx.count("3.7 depth clause skipped")
        if any(c[0] == "fuel" for c in r["clauses"]):
            fuel.append(describe(r))
            continue
        if not r["clauses"]:
            pv["valid"] += 1
            continue
        k = known_class(r)
        if k:
            pv["known"] += 1
            known_hits.setdefault(k, r)
            known_count[k] = known_count.get(k, 0) + 1
        else:
            pv["rejected"] += 1
            new.append(r)
        for c in r["clauses"]:
            ctx.count("violated:" + c[0])
    ctx.cov["code_objects_per_version"] = per_ver
    ctx.cov["programs"] = len(compiled)
    ctx.cov["traces_validated_against_impl"] = len(results)
    if fuel:
        raise FrameworkError("depth iteration out of fuel (validator undecided): %s" % fuel[0])
    # ---- known findings still reproduce?
    for e in ctx.known():
        if e["id"] in known_hits:
            r = known_hits[e["id"]]
            ctx.known_finding(e, "%s — reproduced on %d objects this run, e.g. %s" % (e["what"], known_count[e["id"]], describe(r)[:300]))
        else:
            w = e.get("witness", {})
            p = os.path.join(work, "known-%s.er" % e["id"])
            open(p, "w").write(w.get("program", ""))
            rs = batch.run([{"id": "known/" + e["id"], "path": p, "kind": "known", "cwd": work}], w.get("versions") or T.VERSIONS)
            hit = [r for r in rs if known_class(r) == e["id"]]
            if hit:
                ctx.known_finding(e, "%s — witness reproduces: %s" % (e["what"], describe(hit[0])[:300]))
            else:
                ctx.notes.append("NOTE stale-known-finding %s: witness no longer rejected" % e["id"])
                print("NOTE stale-known-finding property=C14 id=%s" % e["id"])
    # ---- violations
    seen = set()
    for r in new:
        key = (r["clauses"][0][0], r["prog"]["id"])
        if key in seen or len(seen) >= 4:
            continue
        seen.add(key)
        text = shrink_program(batch, r) if r["prog"]["kind"].startswith("gen") else open(r["prog"]["path"]).read()
        ctx.violation("failing-input", "erg emits a code object the validator rejects: " + describe(r),
                      case={"program": text, "program_id": r["prog"]["id"], "version": r["ver"], "code_object": r["rec"].get("name"),
                            "qual": r["rec"].get("qual"), "clauses": r["clauses"]},
                      impl={"stacksize": r["rec"].get("stacksize"), "code": r["rec"].get("code"), "linetable": r["rec"].get("linetable"),
                            "firstlineno": r["rec"].get("firstlineno"), "interpreter": interpreter_view(r)},
                      model=r["out"][:10] if r["out"] else None,
                      judge={"valid_code": False, "clauses": r["clauses"]})
    if new:
        ctx.cov["rejected_objects"] = len(new)
        ctx.cov["rejected_examples"] = [describe(r)[:240] for r in new[:12]]
    if not new and (corr or not proof.ok):
        what = []
        if not proof.ok:
            what.append("theorem(s) no longer check: " + proof.summary())
        if corr:
            what.append("%d disagreements between the model of the interpreter and the interpreter, first: %s" % (len(corr), corr[0]))
        ctx.violation("broken-correspondence" if corr else "broken-theorem", "; ".join(what), case={"first": corr[:5]},
                      theorem=proof.summary() or None, no_input=True)
    elif corr:
        ctx.notes.append("model/interpreter disagreements: %s" % corr[:5])


def replay(ctx, path):
    r = json.load(open(path))
    probes, proof, erg, model, work = setup(ctx)
    try:
        batch = Batch(ctx, probes, model, erg, work)
        case = r["case"]
        if not case or "program" not in case:
            print("replay: no program in this replay file (%s)" % r.get("kind"))
            return
        open(os.path.join(work, "c14_input.txt"), "w").write("x\n")
        p = os.path.join(work, "replay.er")
        open(p, "w").write(case["program"])
        rs = batch.run([{"id": "replay", "path": p, "kind": "replay", "cwd": work}], [case["version"]])
        for j in batch.failed:
            print("compile failed:", j.get("error"))
        for x in rs:
            print(describe(x) if x["clauses"] else "%s [py %s] %s: valid" % (x["prog"]["id"], x["ver"], x["rec"].get("name")))
            if x["clauses"] and known_class(x) is None:
                ctx.violation("failing-input", describe(x), case=case, impl={"interpreter": interpreter_view(x)},
                              model=x["out"][:10] if x["out"] else None, judge={"valid_code": False, "clauses": x["clauses"]})
    finally:
        shutil.rmtree(work, ignore_errors=True)
