"""C29 — incremental language-server analysis converges to a fresh analysis.

proof:          coq/Els/Props_C29.v over coq/Els/Model.v (ASTDiff::diff / update, HIRDiff::new / update / fix,
                quick_check_file, change_kind, recheck_file, check_file, the didOpen / didChange / didSave handlers
                and one tick of the polling thread), for every analysis function, every lowering function and
                every answer of the module graph: diff never panics; update (diff old new) old = new exactly when at
                most one top-level chunk changed; convergence of what is published, for all histories
correspondence: generated edit histories are sent to the real server (els::Server, harness `ergv-els`); after every
                notification the model must predict whether diagnostics were published, the cached AST
                (Server::get_ast, chunk by chunk) and the number of cached HIR chunks (Server::get_hir)
judge:          the property itself, observed directly: the last textDocument/publishDiagnostics for the document
                after the history (incremental server) against those of a freshly started server that opens the
                final text; compared as multisets by the extracted Spec.judge
"""
import re
import shutil
import tempfile
import threading
from lib.vplib import *

REGISTRY = dict(
    category="proof",
    text="proof (partial): Coq model of the language server's incremental path (coq/Els/Model.v: ASTDiff/HIRDiff index "
         "arithmetic and the cache protocol of quick_check_file / change_kind / recheck_file / check_file) with the "
         "convergence theorem 'after any history ending in a didSave or a polling tick, published = check(final text)' "
         "proved for every analysis function and every history; tied to els by replaying generated edit histories "
         "(add / delete / modify one or several top-level definitions per notification) on the real server and comparing "
         "publish events, cached AST and HIR length step by step; the property is judged directly (last published "
         "diagnostics vs a freshly started server on the final text). Only sampled: that the real full analysis and the "
         "lowering of one chunk in an existing context depend on nothing but the text.",
    note="Trusted: Coq kernel, extraction (ExtrOcamlBasic) + generic OCaml driver, harness/els, serde/lsp-types. "
         "Not modelled: syntax errors (partial ASTs), other open documents and cross-module re-checks (dependents), "
         "the interleaving of the polling thread with the handlers (observed only).",
    technique="Coq proof over hand model (invariant over all notification histories) + step-wise correspondence through "
              "the real server + direct differential judge (incremental vs fresh server) with shrinking",
    design="DESIGN.md §4 C29")

TRIGGER_CHARS = [".", ":", "(", " "]      # els::server::TRIGGER_CHARS (re-read from the source by trigger_chars())


def trigger_chars():
    src = open(os.path.join(REPO, "crates", "els", "server.rs")).read()
    m = re.search(r"pub const TRIGGER_CHARS: \[&str; \d+\] = \[([^\]]*)\];", src)
    if not m:
        raise TieBroken("els/server.rs: TRIGGER_CHARS not found")
    return re.findall(r'"([^"]*)"', m.group(1))


# ------------------------------------------------------------------ generation
def gen_chunk(rng, names, fresh):
    """one top-level chunk as a list of lines. names: defined names (v* values, f* functions); fresh(kind) -> new name.
    Values are only used as values and functions only called (a function used as a number sends the checker into
    a ten-second inference), but uses may be undefined (q*, g*, u*), precede the definition, or be ill-typed."""
    k = rng.choices(["lit", "use", "fun", "funuse", "fun2", "call", "tyerr", "undef", "print", "mathuse"],
                    weights=[4, 4, 2, 2, 2, 3, 1, 2, 2, 1])[0]
    vals = [n for n in names if n.startswith("v")]
    funs = [n for n in names if n.startswith("f")]
    val = lambda: rng.choice(vals) if vals and rng.random() < 0.85 else "q%d" % rng.randint(0, 3)
    fun = lambda: rng.choice(funs) if funs and rng.random() < 0.85 else "g%d" % rng.randint(0, 1)
    if k == "lit":
        return ["%s = %d" % (fresh("v"), rng.randint(0, 9))]
    if k == "use":
        return ["%s = %s + %d" % (fresh("v"), val(), rng.randint(0, 9))]
    if k == "fun":
        return ["%s x = x + %d" % (fresh("f"), rng.randint(0, 9))]
    if k == "funuse":
        return ["%s x = x + %s" % (fresh("f"), val())]
    if k == "fun2":
        return ["%s x =" % fresh("f"), "    y = x + %s" % (val() if rng.random() < 0.6 else str(rng.randint(0, 9))), "    y"]
    if k == "call":
        return ["%s = %s %d" % (fresh("v"), fun(), rng.randint(0, 9))]
    if k == "tyerr":
        return ['%s = "a" + %d' % (fresh("v"), rng.randint(0, 9))]
    if k == "undef":
        return ["%s = u%d" % (fresh("v"), rng.randint(0, 3))]
    if k == "print":
        return ["print! %s" % val()]
    return ["%s = m.pi" % fresh("v")]


def name_of(chunk):
    h = chunk[0]
    if h.startswith("print!") or h.startswith("#") or not h.strip():
        return None
    return h.split()[0]


def is_real(chunk):
    return bool(chunk[0].strip()) and not chunk[0].startswith("#")


def render(chunks):
    return "".join(l + "\n" for c in chunks for l in c)


def gen_history(rng, max_notifs=6):
    """-> dict(text0, steps). A step = dict(text (after it), changes (LSP content changes, applied in order to `base`),
    base, save (a didSave follows), ops (what was done, for the statistics))"""
    counter = [0]

    def fresh(kind):
        counter[0] += 1
        return "%s%d" % (kind, counter[0])
    chunks = []
    if rng.random() < 0.6:
        chunks.append(['m = import "math"'])
    for _ in range(rng.randint(1, 4)):
        chunks.append(gen_chunk(rng, [n for n in map(name_of, chunks) if n], fresh))
    text = render(chunks)
    hist = {"text0": text, "steps": []}
    for _ in range(rng.randint(1, max_notifs)):
        nops = rng.choices([1, 2, 3], weights=[5, 3, 1])[0]
        style = rng.choice(["full", "ranges", "ranges", "ranges"])
        changes, kinds = [], []
        cur = [list(c) for c in chunks]
        for _ in range(nops):
            names = [n for n in map(name_of, cur) if n]
            op = rng.choices(["add", "del", "mod", "modrhs", "blank"], weights=[4, 3, 3, 2, 1])[0]
            start_line = lambda idx: sum(len(c) for c in cur[:idx])
            if op == "del" and sum(1 for c in cur if is_real(c)) <= 1:
                op = "add"
            if op == "add":
                idx = rng.randint(0, len(cur))
                c = gen_chunk(rng, names, fresh)
                l = start_line(idx)
                changes.append([1, l, 0, l, 0, "".join(x + "\n" for x in c)])
                cur.insert(idx, c)
            elif op == "del":
                idx = rng.choice([i for i, c in enumerate(cur) if not is_real(c) or sum(1 for d in cur if is_real(d)) > 1])
                l = start_line(idx)
                changes.append([1, l, 0, l + len(cur[idx]), 0, ""])
                del cur[idx]
            elif op == "mod":
                idx = rng.randrange(len(cur))
                old = cur[idx]
                nm = name_of(old)
                keep = nm is not None and nm[0] in "vf" and rng.random() < 0.6
                c = gen_chunk(rng, [n for n in names if n != nm],
                              (lambda kind: nm if kind == nm[0] else fresh(kind)) if keep else fresh)
                l = start_line(idx)
                changes.append([1, l, 0, l + len(old), 0, "".join(x + "\n" for x in c)])
                cur[idx] = c
            elif op == "modrhs":
                idx = rng.randrange(len(cur))
                li = rng.randrange(len(cur[idx]))
                line = cur[idx][li]
                if line.endswith("=") or not is_real(cur[idx]):
                    continue
                l = start_line(idx) + li
                ins = rng.choice([" + 1", "  ", " + u0", ' + "s"'])
                changes.append([1, l, len(line), l, len(line), ins])
                cur[idx][li] = line + ins
            else:
                idx = rng.randint(0, len(cur))
                l = start_line(idx)
                c = [rng.choice(["", "# c"])]
                changes.append([1, l, 0, l, 0, c[0] + "\n"])
                cur.insert(idx, c)
            kinds.append(op)
        new_text = render(cur)
        if not changes:
            continue
        step = {"text": new_text, "base": text, "ops": kinds, "save": rng.random() < 0.35,
                "changes": [[0, new_text]] if style == "full" else changes}
        hist["steps"].append(step)
        chunks, text = cur, new_text
    return hist


def line_range_change(old, new):
    """one content change turning `old` into `new` that replaces whole lines (range from column 0 to column 0)"""
    a, b = old.split("\n"), new.split("\n")
    p = 0
    while p < len(a) - 1 and p < len(b) - 1 and a[p] == b[p]:
        p += 1
    s = 0
    while s < len(a) - 1 - p and s < len(b) - 1 - p and a[len(a) - 1 - s] == b[len(b) - 1 - s]:
        s += 1
    # lines p .. len-1-s of each (the last element of split is the text after the final newline)
    if s == 0:
        # ends differ: replace from line p to the end of the old text
        end = [len(a) - 1, len(a[-1])]
        repl = "\n".join(b[p:])
    else:
        end = [len(a) - s, 0]
        repl = "".join(x + "\n" for x in b[p:len(b) - s])
    return [1, p, 0, end[0], end[1], repl]


def notifications(hist, autosave, final=True):
    """the wire notifications of a history (one document, doc 0)"""
    ver = 1
    ns = [[0, 0, ver, hist["text0"]]]
    prev = hist["text0"]
    for st in hist["steps"]:
        ver += 1
        chs = st["changes"] if st.get("changes") and st.get("base") == prev else [line_range_change(prev, st["text"])]
        ns.append([1, 0, ver, chs])
        prev = st["text"]
        if st.get("save"):
            ns.append([2, 0])
    if final:
        if not (ns[-1][0] == 2):
            ns.append([2, 0])
        if not autosave:
            ns.append([3, 1500, 12000])
    return ns


def text_at(hist, autosave, k):
    """the document after the first k+1 notifications"""
    t, j = hist["text0"], 0
    for n in notifications(hist, autosave)[1:k + 1]:
        if n[0] == 1:
            t = hist["steps"][j]["text"]
            j += 1
    return t


def final_text(hist):
    return hist["steps"][-1]["text"] if hist["steps"] else hist["text0"]


def apply_changes(text, chs):
    """LSP content changes on ASCII text (the generator's; used to validate the generator itself)"""
    for c in chs:
        if c[0] == 0:
            text = c[1]
            continue
        lines = text.split("\n")
        off = lambda l, ch: sum(len(x) + 1 for x in lines[:l]) + ch
        a, b = off(c[1], c[2]), off(c[3], c[4])
        text = text[:a] + c[5] + text[b:]
    return text


# ------------------------------------------------------------------ canonical forms
def canon_msg(m):
    m = re.sub(r"\b[hfr]\d+_d\d+\b", "DOC", m)
    m = re.sub(r"%\d+", "%N", m)
    m = re.sub(r"\?\d+", "?N", m)
    return m


def canon_diags(ds):
    """harness diag = (sl sc el ec severity code message) -> sorted list of (tuple, int encoding)"""
    out = []
    for d in ds:
        msg = canon_msg(sx_str(d[6]))
        out.append((d[0], d[1], d[2], d[3], d[4], sx_str(d[5]), msg))
    return sorted(out)


def enc_diag(d):
    return [d[0], d[1], d[2], d[3], d[4]] + [ord(c) for c in d[5]] + [-1] + [ord(c) for c in d[6]]


def loose(ds):
    """diagnostics with the characters of each message sorted: equal for messages that differ only in the order in
    which the bounds of type variables are printed (|L <: Add(R), R: Type| / |R: Type, L <: Add(R)|: hash order)"""
    return sorted((d[0], d[1], d[2], d[3], d[4], d[5], "".join(sorted(d[6]))) for d in ds)


def last_pub(steps, doc):
    last = None
    for st in steps:
        if isinstance(st, list) and len(st) > 1 and isinstance(st[1], list):
            for p in st[1]:
                if p[0] == doc:
                    last = p[1]
    return last


# ------------------------------------------------------------------ running
class Runner:
    def __init__(self, ctx):
        self.ctx = ctx
        self.ws = tempfile.mkdtemp(prefix="ergv-els-c29-")
        self.h = Harness(ctx, "els", env={"ERGV_ELS_WS": self.ws})
        self.model = ctx.model("Els")
        self.serial = 0
        self.trig = trigger_chars()

    def close(self):
        shutil.rmtree(self.ws, ignore_errors=True)

    def impl(self, hists, autosave, workers=6, fresh_batch=20):
        """-> (per history: steps of the incremental server, per history: diagnostics of a fresh server or None)"""
        n = len(hists)
        base = self.serial
        self.serial += n + 1
        inc_cases = [[1, base + i, int(autosave), notifications(h, autosave)] for i, h in enumerate(hists)]
        finals = [final_text(h) for h in hists]
        fresh_cases = [[2, base + k, int(autosave), finals[k:k + fresh_batch]] for k in range(0, n, fresh_batch)]
        jobs = [("i", i, c) for i, c in enumerate(inc_cases)] + [("f", k, c) for k, c in enumerate(fresh_cases)]
        # incremental histories of one worker share one long-lived server; every fresh case starts its own
        parts = [[j for j in jobs if (j[1] % workers == w)] for w in range(workers)]
        res, errs = {}, []

        def work(w):
            try:
                if parts[w]:
                    out = self.h.run([j[2] for j in parts[w]], timeout=3000)
                    for j, r in zip(parts[w], out):
                        res[(j[0], j[1])] = r
            except Exception as e:  # noqa
                errs.append(e)
        ts = [threading.Thread(target=work, args=(w,)) for w in range(workers)]
        for t in ts:
            t.start()
        for t in ts:
            t.join()
        if errs:
            raise FrameworkError("harness run failed: %s" % errs[0])
        inc = [res[("i", i)] for i in range(n)]
        fresh = []
        for i in range(n):
            fresh.append(self.fresh_result(res[("f", i // fresh_batch)], i % fresh_batch, finals[i], autosave))
        return inc, fresh

    def fresh_result(self, r, k, text, autosave, alone=False):
        """what the fresh reference server published for its k-th document: a list of diagnostics, or
        ("crash", message) when the analysis of that text itself panics / kills the process (a defect of the checker,
        property C07: there is nothing to compare).  A document for which didOpen published nothing has no diagnostics
        (check_file publishes nothing for a clean document while another open document has errors)."""
        ok_batch = isinstance(r, list) and r and isinstance(r[0], list) and k < len(r)
        if ok_batch:
            st = r[k]
            if st[0] == 0:
                return last_pub([st], k) or []
            if st[0] == -999:
                return ("crash", sx_str(st[-1]))
        if alone:
            return ("crash", "the server process died (%s)" % (r[:2] if isinstance(r, list) else r))
        # the whole batch was lost (the process died or panicked outside a handler): this text again, in its own server
        self.serial += 1
        return self.fresh_result(self.h.run([[2, self.serial, int(autosave), [text]]])[0], 0, text, autosave, alone=True)

    def parse(self, texts):
        r = self.h.run([[4, texts]])[0]
        return r

    def evaluate(self, hists, autosave):
        """-> list of dict per history: inc (steps), fresh (diags), corr (mismatch or None), judge (failure or None)"""
        inc, fresh = self.impl(hists, autosave)
        out = []
        # judge (extracted): last published vs fresh
        jcases, jidx = [], []
        for i, h in enumerate(hists):
            r = {"inc": inc[i], "fresh": fresh[i], "corr": None, "judge": None, "noise": False}
            out.append(r)
            steps = inc[i]
            if not isinstance(steps, list) or (steps and steps[0] == -997):
                r["judge"] = {"why": "the language server process died", "impl": steps}
                continue
            if steps and not isinstance(steps[0], list):
                # (-999 message): a panic outside the notification handlers (while the harness read the server's state)
                r["judge"] = {"why": "the language server panicked outside a handler: %s" % (
                    sx_str(steps[1]) if len(steps) > 1 and isinstance(steps[1], list) else steps)}
                continue
            bad = next((k for k, st in enumerate(steps) if st[0] != 0), None)
            if bad is not None:
                st = steps[bad]
                r["judge"] = {"why": "the handler %s at notification %d" % (
                    "panicked: " + sx_str(st[-1]) if st[0] == -999 else "returned an error", bad), "step": bad}
                ns_i = notifications(h, autosave)
                if st[0] == -999 and bad < len(ns_i) and ns_i[bad][0] == 1 and "has qvar" in sx_str(st[-1]):
                    # the didChange handler (quick_check_file) panicked: class of the known finding, if it is listed
                    r["known"] = "C29-quick-check-panics"
                if st[0] == -999:
                    # is it the analysis of that text itself that panics (then a fresh server panics on it too: a
                    # defect of the checker, property C07, and there are no diagnostics to compare) or the history?
                    t = text_at(h, autosave, bad)
                    self.serial += 1
                    fr = self.fresh_result(self.h.run([[2, self.serial, int(autosave), [t]]])[0], 0, t, autosave, alone=True)
                    if isinstance(fr, tuple):
                        r["judge"] = None
                        r["checker_panic"] = fr[1]
                        r["crash_text"] = t
                continue
            if isinstance(fresh[i], tuple):
                # the reference itself crashes on the final text: out of this property's scope (C07)
                r["checker_panic"] = fresh[i][1]
                r["crash_text"] = final_text(h)
                r["fresh"] = None
                continue
            # a document for which nothing was ever published shows no diagnostics
            lp = last_pub(steps, 0) or []
            a, b = canon_diags(lp), canon_diags(fresh[i])
            r["inc_final"], r["fresh_final"] = a, b
            jcases.append([1, [enc_diag(d) for d in a], [enc_diag(d) for d in b]])
            jidx.append(i)
        for i, v in zip(jidx, self.model.run(jcases) if jcases else []):
            r = out[i]
            if v != 1:
                if loose(r["inc_final"]) == loose(r["fresh_final"]):
                    r["noise"] = True      # same diagnostics up to the print order of type-variable bounds
                elif not autosave and sorted(set(loose(r["inc_final"]))) == sorted(set(loose(r["fresh_final"]))):
                    # polling mode, same diagnostics but some of them twice: the polling thread and the didSave
                    # handler analysed the document at the same time (known finding, timing-dependent)
                    r["known"] = "C29-polling-race-duplicates"
                    r["judge"] = {"why": "diagnostics published twice (concurrent analyses of the same document)",
                                  "incremental": r["inc_final"], "fresh": r["fresh_final"]}
                else:
                    r["judge"] = {"why": "the diagnostics published last differ from those of a fresh server on the final text",
                                  "incremental": r["inc_final"], "fresh": r["fresh_final"]}
        if autosave:
            self.correspondence(hists, out)
        return out

    def correspondence(self, hists, out):
        """model vs server, step by step (only in the mode where the handlers are the only actors)"""
        texts = []
        for h in hists:
            texts.append(h["text0"])
            texts += [st["text"] for st in h["steps"]]
        parsed = self.parse(texts)
        ids = {}

        def items(k):
            p = parsed[k]
            if not isinstance(p, list):
                return None
            th = int(hashlib.sha1(texts[k].encode()).hexdigest()[:12], 16)
            return [[ids.setdefault(sx_str(c[0]), len(ids) + 1), th] for c in p]
        k = 0
        mcases, metas = [], []
        for i, h in enumerate(hists):
            ns = notifications(h, True)
            t0 = items(k)
            k += 1
            evs, ok = [], t0 is not None
            steps = out[i]["inc"]
            usable = isinstance(steps, list) and len(steps) == len(ns) and all(isinstance(s, list) and s[0] == 0 for s in steps)
            for j, n in enumerate(ns[1:], start=1):
                if n[0] == 1:
                    it = items(k)
                    k += 1
                    ok = ok and it is not None
                    c0 = n[3][0] if n[3] else None
                    evs.append([0, int(bool(c0) and c0[0] == 1), c0[2] if c0 and c0[0] == 1 else -1,
                                int(bool(c0) and (c0[-1] in self.trig)), it or []])
                elif n[0] == 2:
                    deps = steps[j][2] if usable else 0
                    evs.append([1, int(deps > 0)])
            if ok and usable:
                mcases.append([0, t0, evs])
                metas.append((i, ns))
            elif out[i]["judge"] is None and not ok:
                out[i]["corr"] = {"why": "a generated text does not parse (generator / parser tie)"}
        res = self.model.run(mcases) if mcases else []
        for (i, ns), m in zip(metas, res):
            steps = out[i]["inc"]
            for j, (st, ms) in enumerate(zip(steps, m)):
                if ms == -999:
                    out[i]["corr"] = {"step": j, "why": "the model panics", "notification": ns[j]}
                    break
                # didOpen of a document without diagnostics publishes nothing for it when another open document of the
                # same server has errors (check_file then takes its error arm, and didOpen does not send the empty list):
                # the publish event of didOpen is not compared
                pub_i = 1 if j == 0 else int(any(p[0] == 0 for p in st[1]))
                ast_i = [ids.get(sx_str(c), -len(ids) - 1) for c in st[3]] if isinstance(st[3], list) else -1
                got = [pub_i, ast_i, st[4]]
                want = [ms[0], ms[1], ms[2]]
                if got != want:
                    out[i]["corr"] = {"step": j, "notification": ns[j], "impl [published, cached AST, HIR chunks]": got,
                                      "model [published, cached AST, HIR chunks]": want,
                                      "chunk ids": {v: k for k, v in ids.items() if v in (ast_i if isinstance(ast_i, list) else []) or v in (ms[1] if isinstance(ms[1], list) else [])}}
                    break


def readable(hist):
    return {"open": hist["text0"], "steps": [{"text": st["text"], "changes": st.get("changes") if st.get("base") is not None else None,
                                              "save": bool(st.get("save"))} for st in hist["steps"]]}


def shrink_history(runner, hist, autosave):
    def fails(steps):
        h = {"text0": hist["text0"], "steps": steps}
        r = runner.evaluate([h], autosave)[0]
        return r["judge"] is not None
    steps = shrink_list(hist["steps"], fails, budget=25) if len(hist["steps"]) > 1 else hist["steps"]
    return {"text0": hist["text0"], "steps": steps}


def load_corpus():
    out = []
    d = os.path.join(VERIF, "corpus", "C29")
    if os.path.isdir(d):
        for f in sorted(os.listdir(d)):
            if f.endswith(".json"):
                j = json.load(open(os.path.join(d, f)))
                out.append((f, j["history"], j.get("autosave", 1)))
    return out


def stats(ctx, hist, r, origin, autosave):
    ctx.count("history: " + origin)
    ctx.count("mode: didSave only (client answered files.autoSave=afterDelay)" if autosave else "mode: polling thread active (FakeClient default)")
    prev = hist["text0"]
    if 'import "math"' in hist["text0"]:
        ctx.count("document in the module graph (has an import)")
    for st in hist["steps"]:
        ops = st.get("ops") or ["(shrunk/corpus)"]
        ctx.count("notification changing 1 chunk" if len(ops) == 1 else "notification changing >= 2 chunks")
        for o in ops:
            ctx.count("op: " + o)
        ch = st.get("changes") or []
        ctx.count("notification: full text" if ch and ch[0][0] == 0 else "notification: %d range(s)" % min(len(ch), 3) if ch else "notification: line range")
        if st.get("save"):
            ctx.count("didSave in mid-history")
        prev = st["text"]
    fin = r.get("fresh_final")
    nontriv = bool(fin) and bool(hist["steps"]) and final_text(hist) != hist["text0"]
    if fin is not None:
        ctx.count("final text: diagnostics non-empty" if fin else "final text: no diagnostics")
        if any(d[4] == 1 for d in fin):
            ctx.count("final text: has errors")
    if r.get("checker_panic"):
        ctx.count("skipped: the analysis of a text of the history panics in a fresh server too (C07): " + r["checker_panic"][:60])
        note = "C07 witness (a fresh language server crashes on this text: %s): %r" % (r["checker_panic"][:80], r.get("crash_text"))
        if note not in ctx.notes and len(ctx.notes) < 8:
            ctx.notes.append(note)
    if r.get("noise"):
        ctx.count("message differs only in the print order of type-variable bounds (not counted as a difference)")
    ctx.case([hist["text0"]] + [st["text"] for st in hist["steps"]] + [autosave], nontrivial=nontriv,
             sample=readable(hist) if nontriv and len(hist["steps"]) <= 2 else None)


def run(ctx):
    ctx.cov["rule"] = ("edit histories on one open document of 1-5 top-level chunks (value and function definitions, uses of defined / "
                       "undefined / later-defined names, an ill-typed definition, an import, print!): 1-6 didChange notifications, each "
                       "adding / deleting / replacing / extending 1-3 chunks or inserting blank / comment lines, sent as full text or as "
                       "one range per operation (column-0 ranges trigger quick_check_file), didSave in between with probability 0.35, "
                       "and a final didSave; both client modes (polling thread stopped / running). non-trivial = distinct history that "
                       "changes the text and whose final text has at least one diagnostic")
    ctx.cov["trusted_base"] = ["Coq 8.16.1 kernel", "extraction (ExtrOcamlBasic only) + extract/driver.ml",
                               "harness/els (Server::new + dispatch of JSON notifications, reads the channel the server writes to, "
                               "Server::get_ast / get_hir / dependencies_of)",
                               "serde_json / lsp-types decoding", "SimpleParser::parse + Display of ast::Expr to name chunks"]
    ctx.assumptions = ["texts parse (a syntax error leaves a partial AST: not modelled, not generated)",
                       "one open document per history; the fresh reference server opens up to 20 unrelated documents (distinct URIs), "
                       "the first of every batch in a brand-new server",
                       "the full analysis of a document is a function of its text (sampled: this is what the judge compares)",
                       "every server (incremental and reference) is driven only after its start-up work is over "
                       "(Flags::builtin_modules_loaded, the signal els' own tests wait for): while the thread started by "
                       "CompletionCache::new still analyses the python standard modules into the shared module cache, a document "
                       "that imports one of them can get a spurious `Module(\"math.d.er\") object has no attribute pi` (observed "
                       "with seed 1 before the harness waited)",
                       "messages are compared after replacing generated type-variable numbers (%N, ?N) and document names; "
                       "two messages that differ only in the order of the same characters count as equal (hash-ordered bound lists)"]
    proof = ctx.coq(["Els/Props_C29.v"])
    runner = Runner(ctx)
    try:
        _run(ctx, proof, runner)
    finally:
        runner.close()


def _run(ctx, proof, runner):
    n1 = ctx.scale(180, 4000)      # didSave-only mode (deterministic: step-wise correspondence)
    n0 = ctx.scale(24, 400)        # polling mode
    n_corr = n_judge = 0
    first_corr = None
    t0 = time.time()
    corpus = load_corpus()
    plan = []
    if corpus:
        plan.append(("corpus", [c for c in corpus if c[2]], 1))
        plan.append(("corpus", [c for c in corpus if not c[2]], 0))
    gen1 = [("gen", gen_history(ctx.rng), 1) for _ in range(n1)]
    gen0 = [("gen", gen_history(ctx.rng), 0) for _ in range(n0)]
    bs = ctx.scale(200, 500)
    for k in range(0, len(gen1), bs):
        plan.append(("generated", gen1[k:k + bs], 1))
    for k in range(0, len(gen0), bs):
        plan.append(("generated", gen0[k:k + bs], 0))
    evaluated = 0
    for origin, batch, autosave in plan:
        if not batch or n_judge >= 3:
            continue
        hists = [b[1] for b in batch]
        # the generator's own ranges must produce the text it claims (else the tie python<->server is broken)
        for h in hists:
            prev = h["text0"]
            for st in h["steps"]:
                if st.get("changes") and st.get("base") == prev and apply_changes(prev, st["changes"]) != st["text"]:
                    raise FrameworkError("generator: content changes do not produce the recorded text")
                prev = st["text"]
        res = runner.evaluate(hists, autosave)
        # polling mode depends on timing: a difference must survive a second, slower run before it counts
        if not autosave:
            for i, r in enumerate(res):
                for _ in range(2):
                    if res[i]["judge"] is not None and res[i].get("known") != "C29-polling-race-duplicates":
                        ctx.count("polling mode: difference in one run, history run again")
                        res[i] = runner.evaluate([hists[i]], autosave)[0]
        evaluated += len(hists)
        for (tag, h, _), r in zip(batch, res):
            stats(ctx, h, r, origin if origin == "generated" else "corpus", autosave)
            kf = next((k for k in ctx.known() if r["judge"] is not None and k.get("id") == r.get("known")), None)
            if kf is not None:
                ctx.known_finding(kf)
                ctx.count("known finding reproduced: " + kf["id"])
                continue
            if r["judge"] is not None:
                n_judge += 1
                if n_judge <= 3:
                    small = shrink_history(runner, h, autosave)
                    r2 = runner.evaluate([small], autosave)[0]
                    j2 = r2["judge"] or r["judge"]
                    ctx.violation("failing-input",
                                  "edit history after which the language server's diagnostics differ from a fresh server's: %s" % j2["why"],
                                  case={"history": small, "autosave": autosave, "readable": readable(small),
                                        "notifications": notifications(small, autosave)},
                                  impl=j2.get("incremental", r2["inc"]), model=j2.get("fresh"), judge=j2)
            elif r["corr"] is not None:
                n_corr += 1
                first_corr = first_corr or {"history": h, "autosave": autosave, "readable": readable(h), "detail": r["corr"]}
    ctx.log("%d histories evaluated in %.1fs" % (evaluated, time.time() - t0))
    ctx.cov["traces_validated_against_impl"] = evaluated
    if n_judge == 0 and (n_corr or not proof.ok):
        what = []
        if not proof.ok:
            what.append("theorem(s) no longer check: " + proof.summary())
        if n_corr:
            what.append("%d histories on which model and language server differ (publish events / cached AST / HIR length)" % n_corr)
        ctx.violation("broken-correspondence" if n_corr else "broken-theorem", "; ".join(what),
                      case=first_corr, theorem=proof.summary() or None, no_input=True)


def replay(ctx, path):
    r = json.load(open(path))
    case = r["case"]
    runner = Runner(ctx)
    try:
        h, autosave = case["history"], case.get("autosave", 1)
        res = runner.evaluate([h], autosave)[0]
        print("history:", json.dumps(readable(h), ensure_ascii=False))
        print("notifications:", notifications(h, autosave))
        print("incremental server, last published:", res.get("inc_final"))
        print("fresh server on the final text:    ", res.get("fresh_final"))
        print("correspondence:", res["corr"])
        print("verdict:", res["judge"])
        if res["judge"]:
            ctx.violation("failing-input", res["judge"]["why"], case=case, impl=res.get("inc_final"), model=res.get("fresh_final"),
                          judge=res["judge"])
    finally:
        runner.close()
