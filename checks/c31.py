"""C31 — module path normalisation identifies only identical files.

proof:          coq/Path/Props_C31.v over the model coq/Path/Model.v (transcription of
                crates/erg_common/lib.rs cheap_canonicalize_path + normalize_path and
                crates/erg_common/pathutil.rs NormalizedPathBuf::new / ==, over a model of
                std::path components / PathBuf::push / PathBuf::pop on Unix)
correspondence: every generated path string goes through NormalizedPathBuf::new, cheap_canonicalize_path,
                normalize_path and Path::components (harness `ergv-path`) and through the extracted model;
                all observations are compared.  PathBuf push/pop traces, NormalizedPathBuf equality of pairs and
                the case-insensitive arm are compared as well.
judge:          coq/Path/Spec.v (extracted): `resolve cwd p` = the file a path names.  Run on the implementation's
                own answers: two paths with equal normal forms that name different files, a normal form that is
                not a fixed point, or a relative path that lost leading `..` is a failing input.
"""
import itertools
import subprocess

from lib.vplib import *

REGISTRY = dict(
    category="proof",
    text="Coq model of NormalizedPathBuf::new (cheap_canonicalize_path, normalize_path over a model of std::path "
         "components/push/pop, coq/Path/Model.v) with theorems for paths of any length and both values of "
         "CASE_SENSITIVE: idempotence, normal form names the same file from every directory, equal normal forms "
         "imply same file, leading `..` kept, shape of normal forms; tied to the Rust code by exhaustive (<=6 / <=8 "
         "components) and random comparison of all observations; the reference `resolve` (coq/Path/Spec.v, "
         "extracted) judges the implementation's own answers.",
    note="Unix paths only (no Prefix component); valid UTF-8; symbolic links ignored (the code never touches the "
         "file system); to_lowercase modelled for ASCII; CASE_SENSITIVE is a build constant (true here): the false "
         "arm is validated only against a transcription in the harness. Known finding: normalize_path deletes the "
         "Windows verbatim marker \\\\?\\ from Unix file names (theorems carry the guard Known_C31).",
    technique="Coq proof over hand model + correspondence (extracted model vs NormalizedPathBuf/std::path) + extracted resolve judge",
    design="DESIGN.md §4 C31")

EX_TOKENS = [".", "..", "a", "b", "A"]
RICH_TOKENS = [".", "..", ".", "..", "a", "b", "A", "a", "...", "....", ".a", "a.", "..a", "a..", "module_name.er",
               "__init__.er", "Ünï", "日本", " ", "\\\\?\\", "\\", "?", "x\\\\?\\y", "\\\\?",
               "LongDirectoryName_0123456789_abcdefghijklmnopqrstuvwxyz", "B", "Ab", "aB"]
COMP_NAMES = {0: "RootDir", 1: "CurDir", 2: "ParentDir", 3: "Normal", 4: "Prefix"}


# ---------------------------------------------------------------- generators
def exhaustive_paths(maxlen, trailing_upto):
    """every path of <= maxlen components over EX_TOKENS, relative and absolute, single separators,
    with and without a trailing separator (trailing variants only up to trailing_upto components)"""
    out = ["", "/"]
    for k in range(1, maxlen + 1):
        for t in itertools.product(EX_TOKENS, repeat=k):
            s = "/".join(t)
            out.append(s)
            out.append("/" + s)
            if k <= trailing_upto:
                out.append(s + "/")
                out.append("/" + s + "/")
    return out


def exhaustive_chars(alphabet, maxlen):
    out = []
    for k in range(0, maxlen + 1):
        for t in itertools.product(alphabet, repeat=k):
            out.append("".join(t))
    return out


def random_path(rng, lo, hi, tokens=RICH_TOKENS):
    k = rng.randint(lo, hi)
    w = rng.choice([0.2, 0.5, 0.8])      # per-path share of "." / ".."
    parts = []
    for _ in range(k):
        if rng.random() < w:
            parts.append(rng.choice([".", "..", ".."]))
        else:
            parts.append(rng.choice(tokens))
    s = rng.choice(["", "", "/", "/", "//", "///", "./", "../"])
    for i, p in enumerate(parts):
        if i:
            s += "/" * rng.choice([1, 1, 1, 2, 3])
        s += p
    s += rng.choice(["", "", "/", "//", "/.", "/..", "/./"])
    return s


def random_garbage(rng):
    n = rng.randint(0, 14)
    return "".join(rng.choice("//..aA\\?b é") for _ in range(n))


def variant(rng, p):
    """a differently written path that names the same file (or, with small probability, another one)"""
    k = rng.random()
    if k < 0.25:
        return p.replace("/", "//", 1) if "/" in p else "./" + p
    if k < 0.5:
        return p + "/." if p else "."
    if k < 0.7:
        i = rng.randint(0, len(p))
        while 0 < i < len(p) and p[i - 1] != "/":
            i -= 1
        return p[:i] + "zz/../" + p[i:]
    if k < 0.8:
        return "../" + p
    if k < 0.9:
        return p.swapcase()
    return p.rstrip("/") + "/.." if p else ".."


# ---------------------------------------------------------------- running
def run_lines(cmd, texts, timeout=2400):
    p = subprocess.run(cmd, input="\n".join(texts) + "\n", stdout=subprocess.PIPE, stderr=subprocess.PIPE, text=True,
                       timeout=timeout)
    lines = [l for l in p.stdout.splitlines() if l.strip()]
    if p.returncode != 0 or len(lines) != len(texts):
        return None
    return lines


class Runner:
    """implementation and model on the same s-expression lines; results are compared as text first
    (both sides print integers and single-space separated lists), parsed only when needed"""

    def __init__(self, ctx):
        self.ctx = ctx
        self.h = Harness(ctx, "path")
        self.m = ctx.model("Path")
        self.mcmd = ["bash", "-c", "ulimit -s unlimited 2>/dev/null; exec %s" % self.m.bin]

    def impl(self, cases):
        texts = [sx_dump(c) for c in cases]
        out = []
        for i in range(0, len(texts), 200000):
            chunk = texts[i:i + 200000]
            r = run_lines([self.h.bin], chunk)
            if r is None:   # a crash that kills the process: per-case fallback of the framework
                r = [sx_dump(x) for x in self.h.run(cases[i:i + 200000])]
            out += r
        return out

    def model(self, cases):
        texts = [sx_dump(c) for c in cases]
        out = []
        for i in range(0, len(texts), 200000):
            chunk = texts[i:i + 200000]
            r = run_lines(self.mcmd, chunk)
            if r is None:
                raise FrameworkError("model runner Path failed")
            out += r
        return out


def describe(obs):
    """readable form of a mode-0 observation"""
    if not isinstance(obs, list) or len(obs) != 7:
        return obs
    def comps(cs):
        return [COMP_NAMES.get(c[0], "?") + ("(%s)" % sx_str(c[1]) if len(c) > 1 else "") for c in cs]
    return {"case_sensitive": obs[0], "components": comps(obs[1]), "cheap_canonicalize_path": sx_str(obs[2]),
            "NormalizedPathBuf::new": sx_str(obs[3]), "components_of_normal_form": comps(obs[4]),
            "new(new(p))": sx_str(obs[5]), "normalize_path(p)": sx_str(obs[6])}


def cwds_for(*paths):
    """directories to resolve from: the root, a shallow one and two deep ones (deeper than any path can climb),
    with names that occur in no generated path"""
    d = 2 + max(len(p) for p in paths)
    return [[], [[1001]], [[2000 + i] for i in range(d)], [[5000 + i] for i in range(d + 1)]]


# ---------------------------------------------------------------- judge
def judge_search(ctx, R, cs, paths, impl_obs, budget_pairs=400000):
    """impl_obs: parsed mode-0 observations of the implementation for `paths`.
    returns (failures, known) where each item is a dict describing a failing input"""
    fails, known = [], []
    # pool: the paths and their normal forms (a normal form is a path as well)
    pool = {}
    for p, o in zip(paths, impl_obs):
        if isinstance(o, list) and len(o) == 7:
            pool[p] = o
    extra = sorted({sx_str(o[3]) for o in pool.values()} - set(pool))
    if extra:
        for p, l in zip(extra, R.impl([[0, p] for p in extra])):
            o = sx_load(l)
            if isinstance(o, list) and len(o) == 7:
                pool[p] = o
    plist = sorted(pool)
    kn = dict(zip(plist, [x == "1" for x in R.model([[7, p] for p in plist])]))
    # 1. idempotence
    idem = R.model([[5, pool[p][3], pool[p][5]] for p in plist])
    for p, ok in zip(plist, idem):
        if ok != "1":
            item = {"kind": "not-idempotent", "p": p, "new(p)": sx_str(pool[p][3]), "new(new(p))": sx_str(pool[p][5])}
            (known if kn[p] else fails).append(item)
    # 2. leading parents
    par = R.model([[6, p, pool[p][3]] for p in plist])
    for p, ok in zip(plist, par):
        if ok != "1":
            q = sx_str(pool[p][3])
            item = {"kind": "leading-parent-dropped", "p": p, "new(p)": q}
            (known if kn[p] else fails).append(item)
    # 3. equal normal forms (as NormalizedPathBuf compares them: component-wise) but different files
    groups = {}
    for p in plist:
        groups.setdefault(json.dumps(pool[p][4]), []).append(p)
    pairs = []
    for g in groups.values():
        g.sort(key=lambda s: (len(s), s))
        for q in g[1:]:
            pairs.append((g[0], q))
    pairs = pairs[:budget_pairs]
    res = R.model([[4, cs, cwds_for(p, q), p, q, pool[p][3], pool[q][3]] for p, q in pairs])
    for (p, q), ok in zip(pairs, res):
        if ok != "1":
            item = {"kind": "same-module-different-file", "p": p, "q": q, "new(p)": sx_str(pool[p][3]),
                    "new(q)": sx_str(pool[q][3])}
            (known if (kn[p] or kn[q]) else fails).append(item)
    return fails, known


def still_fails(R, cs, item):
    """re-run one (possibly shrunk) failing input on the implementation and the judge"""
    p = item["p"]
    if item["kind"] == "same-module-different-file":
        q = item["q"]
        eq = sx_load(R.impl([[1, p, q]])[0])
        if not (isinstance(eq, list) and eq and eq[0] == 1):
            return False
        op, oq = [sx_load(l) for l in R.impl([[0, p], [0, q]])]
        return R.model([[4, cs, cwds_for(p, q), p, q, op[3], oq[3]]])[0] != "1"
    o = sx_load(R.impl([[0, p]])[0])
    if not (isinstance(o, list) and len(o) == 7):
        return False
    if item["kind"] == "not-idempotent":
        return R.model([[5, o[3], o[5]]])[0] != "1"
    return R.model([[6, p, o[3]]])[0] != "1"


def shrink_item(R, cs, item):
    it = dict(item)
    for key in ("p", "q"):
        if key not in it or len(it[key]) < 2:
            continue
        def fails(sub, key=key):
            cand = dict(it)
            cand[key] = "".join(sub)
            if cand.get("p") == cand.get("q"):
                return False
            return still_fails(R, cs, cand)
        it[key] = "".join(shrink_list(list(it[key]), fails, budget=120))
    obs = [sx_load(l) for l in R.impl([[0, it[k]] for k in ("p", "q") if k in it])]
    it["new(p)"] = sx_str(obs[0][3])
    if "q" in it:
        it["new(q)"] = sx_str(obs[1][3])
    if it["kind"] == "not-idempotent":
        it["new(new(p))"] = sx_str(obs[0][5])
    return it, [describe(o) for o in obs]


WHAT = {"not-idempotent": "NormalizedPathBuf::new is not idempotent on %(p)r: new(p)=%(new(p))r but new(new(p))=%(new(new(p)))r",
        "leading-parent-dropped": "NormalizedPathBuf::new(%(p)r) = %(new(p))r lost leading `..` components of a relative path",
        "same-module-different-file": "paths %(p)r and %(q)r are the same module (normal forms %(new(p))r / %(new(q))r) but name different files"}


def known_matches(entry, item):
    return entry.get("class") == "Known_C31"


# ---------------------------------------------------------------- check
def run(ctx):
    q_len, q_trail = (6, 6) if not ctx.thorough else (8, 6)
    ctx.cov["rule"] = ("path strings: every path of <=%d components over {., .., a, b, A} (relative/absolute, trailing separator "
                       "variants up to %d components), every string of <=6 characters over {/ . a A} and <=4 over {/ . a \\ ?}, "
                       "random longer paths (9-40 components from a richer name set incl. long, dotted, non-ASCII and "
                       "marker-containing names, separator runs, trailing separators) and random character garbage from the "
                       "seeded PRNG; non-trivial = distinct path whose normal form differs from the path as written "
                       "(normalisation had something to do)" % (q_len, q_trail))
    ctx.cov["trusted_base"] = ["Coq 8.16.1 kernel", "extraction (ExtrOcamlBasic only) + extract/driver.ml",
                               "harness/path/src/main.rs (calls NormalizedPathBuf::new, cheap_canonicalize_path, normalize_path, std::path)",
                               "modelled, validated by the correspondence but not verified: std::path::Path::components, PathBuf::push, "
                               "PathBuf::pop, PathBuf ==, str::replace, str::to_lowercase (ASCII)"]
    ctx.assumptions = ["Unix paths: no Prefix component (Windows drive/UNC/verbatim prefixes out of scope)",
                       "paths are valid UTF-8 (to_string_lossy is the identity)",
                       "file identity ignores symbolic links and hard links; `..` at the root stays at the root",
                       "NormalizedPathBuf::new does not access the file system (no canonicalize call on this tree); generated paths "
                       "are relative or live under non-existent roots, so the file system could not interfere anyway",
                       "CASE_SENSITIVE is fixed by erg_common/build.rs at build time; the harness reports it and the model takes it as "
                       "a parameter (theorems hold for both values); when it is false, file names are compared up to ASCII case and "
                       "str::to_lowercase is modelled for code points < 128 only",
                       "paths containing the Windows verbatim marker \\\\?\\ are excluded from the theorems (known finding Known_C31)"]
    proof = ctx.coq(["Path/Props_C31.v"])
    R = Runner(ctx)
    probe = sx_load(R.impl([[0, "a"]])[0])
    if not (isinstance(probe, list) and len(probe) == 7):
        raise TieBroken("harness path: unexpected observation %r" % (probe,))
    cs = probe[0]
    ctx.cov["CASE_SENSITIVE"] = bool(cs)

    # ---- mode 0: observations of single paths
    paths = []
    corpus = os.path.join(VERIF, "corpus", "C31")
    if os.path.isdir(corpus):
        for f in sorted(os.listdir(corpus)):
            if f.endswith(".json"):
                paths += json.load(open(os.path.join(corpus, f))).get("paths", [])
    n_corpus = len(paths)
    ex = exhaustive_paths(q_len, q_trail)
    exc = exhaustive_chars("/.aA", 6) + exhaustive_chars("/.a\\?", 4)
    ctx.cov["exhaustive_small_scope"] = ("all %d paths of <=%d components over {., .., a, b, A} (rel/abs, trailing separator up to %d); "
                                         "all %d strings over {/ . a A} (<=6 chars) and {/ . a \\ ?} (<=4 chars)"
                                         % (len(ex), q_len, q_trail, len(exc)))
    paths += ex + exc
    n_rand = ctx.scale(20000, 400000)
    for _ in range(n_rand):
        paths.append(random_path(ctx.rng, 9, 40) if ctx.rng.random() < 0.7 else random_path(ctx.rng, 1, 8))
    n_garb = ctx.scale(8000, 150000)
    for _ in range(n_garb):
        paths.append(random_garbage(ctx.rng))
    seen = set()
    paths = [p for p in paths if not (p in seen or seen.add(p))]
    ctx.count("corpus", n_corpus)
    ctx.count("exhaustive components", len(ex))
    ctx.count("exhaustive characters", len(exc))
    ctx.count("random paths", n_rand)
    ctx.count("random garbage", n_garb)
    ctx.log("%d distinct path strings" % len(paths))
    il = R.impl([[0, p] for p in paths])
    ml = R.model([[0, cs, p] for p in paths])
    mism0 = []
    for p, a, b in zip(paths, il, ml):
        same = a == b
        # the normal form is the 4th field: non-trivial iff it differs from the input; cheap textual test
        nt = norm_text(a)
        nontriv = nt is not None and nt != " ".join(str(ord(c)) for c in p)
        ctx.case(p, nontrivial=nontriv, sample=p)
        ctx.count("absolute" if p.startswith("/") else "relative")
        if not same:
            mism0.append(p)
    ctx.cov["traces_validated_against_impl"] = len(paths)

    # ---- mode 1: equality (and hash consistency) of pairs
    pairs = []
    npairs = ctx.scale(5000, 100000)
    base = ex[: 4 * 5 ** 4] if len(ex) > 2500 else ex
    for _ in range(npairs):
        p = ctx.rng.choice(base) if ctx.rng.random() < 0.5 else random_path(ctx.rng, 1, 12)
        q = variant(ctx.rng, p) if ctx.rng.random() < 0.8 else random_path(ctx.rng, 1, 6)
        pairs.append((p, q))
    i1 = R.impl([[1, p, q] for p, q in pairs])
    m1 = R.model([[1, cs, p, q] for p, q in pairs])
    mism1 = []
    for (p, q), a, b in zip(pairs, i1, m1):
        av, bv = sx_load(a), sx_load(b)
        ctx.count("pair equal" if av[0] == 1 else "pair different")
        ctx.cov["evaluations"] += 1
        # equal paths must hash equal; unequal paths may collide
        if av[0] != bv[0] or (av[0] == 1 and av[1] != 1):
            mism1.append((p, q, av, bv))

    # ---- mode 2: PathBuf push/pop traces (validates the std model the canonicaliser is written against)
    traces = []
    for _ in range(ctx.scale(3000, 60000)):
        start = ctx.rng.choice(base) if ctx.rng.random() < 0.5 else random_path(ctx.rng, 0, 6)
        ops = []
        for _ in range(ctx.rng.randint(1, 8)):
            if ctx.rng.random() < 0.5:
                ops.append([1])
            else:
                ops.append([0, ctx.rng.choice(RICH_TOKENS + ["/", "/x", "x/", "x//y", "", "./", "../z", "a/b"])])
        traces.append([2, start, ops])
    i2 = R.impl(traces)
    m2 = R.model(traces)
    mism2 = [t for t, a, b in zip(traces, i2, m2) if a != b]
    ctx.count("push/pop traces", len(traces))
    ctx.cov["evaluations"] += len(traces)

    # ---- mode 3: the case-insensitive arm (transcribed in the harness; ASCII only)
    ascii_tokens = [t for t in RICH_TOKENS if all(ord(c) < 128 for c in t)]
    lows = [random_path(ctx.rng, 1, 10, ascii_tokens) for _ in range(ctx.scale(3000, 50000))]
    i3 = R.impl([[3, p] for p in lows])
    m3 = R.model([[3, p] for p in lows])
    mism3 = [p for p, a, b in zip(lows, i3, m3) if a != b]
    ctx.count("case-insensitive arm", len(lows))
    ctx.cov["evaluations"] += len(lows)

    n_mis = len(mism0) + len(mism1) + len(mism2) + len(mism3)
    ctx.log("disagreements: observations %d, pairs %d, push/pop %d, lower-case arm %d; proofs %s"
            % (len(mism0), len(mism1), len(mism2), len(mism3), "ok" if proof.ok else "BROKEN"))

    kfs = ctx.known()
    if proof.ok and n_mis == 0:
        report_known(ctx, R, cs, kfs)
        return

    # ---- something broke: look for an input on which the implementation violates the property
    jp = list(mism0)
    for p, q, _, _ in mism1:
        jp += [p, q]
    jp += [p for p in paths[:n_corpus] if p not in jp]
    fresh = ex if len(ex) <= 100000 else exhaustive_paths(6, 6)
    have = set(jp)
    jp += [p for p in fresh if p not in have]
    for _ in range(ctx.scale(5000, 50000)):
        jp.append(random_path(ctx.rng, 1, 10))
    seen = set()
    jp = [p for p in jp if not (p in seen or seen.add(p))]
    idx = {p: i for i, p in enumerate(paths)}
    need = [p for p in jp if p not in idx]
    extra_obs = dict(zip(need, R.impl([[0, p] for p in need]))) if need else {}
    obs = [sx_load(il[idx[p]] if p in idx else extra_obs[p]) for p in jp]
    fails, known = judge_search(ctx, R, cs, jp, obs)
    ctx.log("judge: %d failing inputs outside the known class, %d inside" % (len(fails), len(known)))
    if known:
        for e in kfs:
            if known_matches(e, known[0]):
                ctx.known_finding(e)
    if fails:
        done = set()
        # smallest first, but prefer witnesses without the empty path (which the OS does not accept)
        fails.sort(key=lambda it: (it["p"] == "" or it.get("q") == "", len(it["p"]) + len(it.get("q", "")), it["p"]))
        for it in fails:
            if it["kind"] in done:
                continue
            done.add(it["kind"])
            small, iobs = shrink_item(R, cs, it)
            mobs = [describe(sx_load(l)) for l in R.model([[0, cs, small[k]] for k in ("p", "q") if k in small])]
            ctx.violation("failing-input", WHAT[small["kind"]] % small, case=small, impl=iobs, model=mobs,
                          judge={"verdict": "fails", "kind": small["kind"],
                                 "reference": "coq/Path/Spec.v resolve / judge_pair / judge_idem / judge_parents"})
        return
    what = []
    if not proof.ok:
        what.append("theorem(s) no longer check: " + proof.summary())
    first = None
    if n_mis:
        what.append("model and implementation differ on %d of %d paths, %d of %d pairs, %d of %d push/pop traces, %d of %d "
                    "lower-case cases" % (len(mism0), len(paths), len(mism1), len(pairs), len(mism2), len(traces), len(mism3), len(lows)))
        if mism0:
            p = min(mism0, key=lambda s: (len(s), s))
            first = {"p": p, "impl": describe(sx_load(il[idx[p]])), "model": describe(sx_load(ml[idx[p]]))}
            old = R.model([[8, cs, q] for q in mism0[:2000]])
            if all(il[idx[q]] == o for q, o in zip(mism0[:2000], old)):
                what.append("on all of them the implementation behaves like the code before the fix of cheap_canonicalize_path")
        elif mism1:
            first = {"p": mism1[0][0], "q": mism1[0][1], "impl": mism1[0][2], "model": mism1[0][3]}
        elif mism2:
            t = mism2[0]
            first = {"pathbuf_trace": {"start": t[1], "ops": t[2]}, "impl": sx_load(R.impl([t])[0]), "model": sx_load(R.model([t])[0])}
        else:
            first = {"p": mism3[0], "lower_case_arm": True}
    ctx.violation("broken-correspondence" if n_mis else "broken-theorem", "; ".join(what), case=first,
                  theorem=proof.summary() or None, no_input=True)


_COMP = r"\(\d(?: \([\d ]*\))?\)"
_OBS = re.compile(r"^\(\d \((?:%s ?)*\) \(([\d ]*)\) \(([\d ]*)\) " % _COMP)


def norm_text(line):
    """the NormalizedPathBuf::new field of a mode-0 observation line, as the text of its code points"""
    m = _OBS.match(line)
    return m.group(2) if m else None


def report_known(ctx, R, cs, kfs):
    """each listed finding is re-played on the implementation; it is printed while it still reproduces"""
    for e in kfs:
        w = e.get("witness", {})
        items = []
        if "idem" in w:
            items.append({"kind": "not-idempotent", "p": w["idem"]})
        if "p" in w and "q" in w:
            items.append({"kind": "same-module-different-file", "p": w["p"], "q": w["q"]})
        inclass = all(x == "1" for x in R.model([[7, it["p"]] for it in items])) if items else False
        if items and inclass and all(still_fails(R, cs, it) for it in items):
            ctx.known_finding(e)
        else:
            ctx.notes.append("NOTE stale-known-finding %s: the witness no longer reproduces" % e.get("id"))
            ctx.log("NOTE stale-known-finding", e.get("id"))


def replay(ctx, path):
    r = json.load(open(path))
    R = Runner(ctx)
    cs = sx_load(R.impl([[0, "a"]])[0])[0]
    case = r.get("case") or {}
    print("CASE_SENSITIVE:", cs)
    if "pathbuf_trace" in case:
        t = [2, case["pathbuf_trace"]["start"], case["pathbuf_trace"]["ops"]]
        print("impl :", [(sx_str(s), k) for s, k in sx_load(R.impl([t])[0])])
        print("model:", [(sx_str(s), k) for s, k in sx_load(R.model([t])[0])])
        return
    keys = [k for k in ("p", "q") if k in case]
    for k in keys:
        print("%s = %r" % (k, case[k]))
        print(" impl :", describe(sx_load(R.impl([[0, case[k]]])[0])))
        print(" model:", describe(sx_load(R.model([[0, cs, case[k]]])[0])))
    if not keys:
        return
    kinds = [case["kind"]] if case.get("kind") in WHAT else (["same-module-different-file"] if "q" in case else []) + \
        ["not-idempotent", "leading-parent-dropped"]
    for kind in kinds:
        it = dict(case)
        it["kind"] = kind
        bad = still_fails(R, cs, it)
        print("judge %s: %s" % (kind, "FAILS" if bad else "ok"))
        if bad:
            known = R.model([[7, it["p"]]])[0] == "1" or ("q" in it and kind == "same-module-different-file" and R.model([[7, it["q"]]])[0] == "1")
            if known:
                print(" (inside the known class Known_C31)")
                continue
            o = [sx_load(l) for l in R.impl([[0, it[k]] for k in keys])]
            it["new(p)"] = sx_str(o[0][3])
            it["new(new(p))"] = sx_str(o[0][5])
            if "q" in it:
                it["new(q)"] = sx_str(o[1][3])
            ctx.violation("failing-input", WHAT[kind] % it, case=it, impl=[describe(x) for x in o],
                          judge={"verdict": "fails", "kind": kind})
            return
