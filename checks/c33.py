"""C33 — an accepted match always has an arm that matches.

proof:          coq/Types/Props_C33.v over coq/Types/Match.v (acceptance = scrutinee type <: Context::union of the pattern types,
                on the subtype model of C06; run-time arm tests from codegen.rs emit_match_pattern + _erg_contains_operator.py)
correspondence: generated programs `f x: T = match x: (arms)`: acceptance by the real checker vs the model, and for accepted
                ones the arm that runs for every sampled value of T vs the model's choice
judge:          the property itself on the observation: the program does not crash and the arm that ran matches the value
                ([den] of the arm's pattern type), for every sampled value of the scrutinee type
"""
from concurrent.futures import ThreadPoolExecutor
import tempfile

from lib.vplib import *
from pylib.types_gen import *
from checks.c06 import to_model, translate

REGISTRY = dict(
    category="proof",
    text="proof (partial): Coq model of match with literal, type and wildcard arms: acceptance = scrutinee <: union of the "
         "pattern types (Context::union modelled on the fragment), run-time arm tests modelled from codegen.rs and "
         "_erg_contains_operator.py; theorems: an accepted match covers every value of the scrutinee type (from C06 soundness), "
         "the run-time arm test decides the pattern type on the fragment; tied to the code by generated programs checked and run "
         "with the erg binary on every sampled value of the scrutinee type. Tuple/record/list patterns and guards not modelled.",
    note="Trusted: Coq kernel, extraction + driver, the erg binary built from the working tree, CPython 3.11. Known finding: the "
         "checker reads Bool as {0, 1}, the run-time Bool test rejects the integers 0 and 1 (known/C33.json).",
    technique="Coq proof over hand model + program-level correspondence (erg check/run vs extracted model) + run-time judge",
    design="DESIGN.md §4 C33")

SCRUT = [mono("Int"), mono("Nat"), mono("Str"), mono("Bool"), enum(1, 2, 3), enum("a", "b"), enum(0, 1), enum(1),
         nival(0, 1, 10), nival(2, 0, 5), or_(mono("Int"), mono("Str")), or_(mono("Nat"), mono("NoneType")),
         or_(enum(1, 2), mono("Str")), or_(mono("Bool"), mono("Str")), or_(mono("Str"), nival(0, 1, 10)), enum(True)]
TY_ARMS = [mono("Int"), mono("Nat"), mono("Str"), mono("Bool"), mono("NoneType"), enum(1, 2), enum("a"), enum(0, 1, 2, 3),
           nival(0, 1, 10), nival(0, 0, 4), nival(2, 0, 5), or_(mono("Int"), mono("Str")), or_(mono("Nat"), mono("NoneType"))]
LITS = [[0, 0], [0, 1], [0, 2], [0, 3], [0, 10], [1, "a"], [1, "b"], [2, 1], [2, 0], [3]]
VALUES = [[0, z] for z in (-3, -1, 0, 1, 2, 3, 4, 5, 9, 10, 11, 100)] + [[1, "a"], [1, "b"], [1, ""], [2, 1], [2, 0], [3]]


def val_erg(v):
    return lit_erg(v) if v[0] != 0 or v[1] >= 0 else "(%d)" % v[1]


def arm_erg(a, i):
    if a[0] == 0:
        return "%s -> %d" % (lit_erg(a[1]), i)
    if a[0] == 1:
        return "(_: %s) -> %d" % (erg(a[1]), i)
    return "_ -> %d" % i


def gen_match(rng):
    t = rng.choice(SCRUT)
    n = rng.randint(1, 4)
    arms = []
    for _ in range(n):
        k = rng.random()
        if k < 0.4:
            arms.append([0, rng.choice(LITS)])
        elif k < 0.9:
            arms.append([1, rng.choice(TY_ARMS)])
        else:
            arms.append([2])
    if rng.random() < 0.5:
        # bias toward accepted matches: finish with an arm for the whole scrutinee type or a wildcard
        arms.append(rng.choice([[1, t], [2]]))
    return t, arms


def domain(t):
    """every value of a small scrutinee type (interval of integers, enum); None: not enumerable here (a pool is sampled)"""
    if t[0] == 10 and t[1] in ([2, "Nat"], [2, "Int"]):
        lo = t[3] + (1 if t[2] in (1, 3) else 0)
        hi = t[4] - (1 if t[2] in (2, 3) else 0)
        if hi - lo < 300:
            return [[0, z] for z in range(lo, hi + 1)]
    if t[0] == 3:
        return [l for l in t[1:]]
    return None


def ival_of_run(rng, a, b):
    """the integers a..b as an interval type of a random openness"""
    op = rng.choice([0, 1, 2, 3] if a >= 1 else [0, 2])
    return nival(op, a - (1 if op in (1, 3) else 0), b + (1 if op in (2, 3) else 0))


def runs_of(vals):
    runs = []
    for z in sorted(vals):
        if runs and runs[-1][1] == z - 1:
            runs[-1][1] = z
        else:
            runs.append([z, z])
    return runs


def gen_cover(rng):
    """systematic family: a small interval (every openness) or enum scrutinee; arms = literals / enums / sub-intervals of every
    openness, in a random order, that cover the scrutinee completely, or all but one boundary value, or all but one interior value"""
    if rng.random() < 0.75:
        op = rng.choice([0, 1, 2, 3])
        lo = rng.randint(0, 3)
        nvals = rng.randint(2, 6)
        first = lo + (1 if op in (1, 3) else 0)
        last = first + nvals - 1
        t = nival(op, lo, last + (1 if op in (2, 3) else 0))
        dom = list(range(first, last + 1))
    else:
        dom = sorted(rng.sample(range(0, 10), rng.randint(2, 4)))
        t = enum(*dom)
    mode = rng.choice(["full", "full", "no-upper", "no-lower", "no-interior"])
    cov = list(dom)
    if mode == "no-upper":
        cov = dom[:-1]
    elif mode == "no-lower":
        cov = dom[1:]
    elif mode == "no-interior" and len(dom) >= 3:
        hole = rng.choice(dom[1:-1])
        cov = [z for z in dom if z != hole]
    pieces = []
    for a, b in runs_of(cov):
        # split a run at a random point now and then
        if b > a and rng.random() < 0.5:
            m = rng.randint(a, b - 1)
            parts = [(a, m), (m + 1, b)]
        else:
            parts = [(a, b)]
        for x, y in parts:
            style = rng.choice(["lit", "enum", "ival", "ival"])
            if style == "lit":
                pieces += [[0, [0, z]] for z in range(x, y + 1)]
            elif style == "enum":
                pieces.append([1, enum(*range(x, y + 1))])
            else:
                pieces.append([1, ival_of_run(rng, x, y)])
    rng.shuffle(pieces)
    if rng.random() < 0.4:
        pieces.append([1, mono("Str")])     # a last arm of a disjoint class: the test of every other arm is then consulted
    return t, pieces, mode


def program(t, arms, vals):
    lines = ["f x: %s =" % erg(t), "    match x:"]
    for i, a in enumerate(arms):
        lines.append("        " + arm_erg(a, i))
    call_line = {}
    for v in vals:
        lines.append("print! f(%s)" % val_erg(v))
        call_line[len(lines)] = v
    return "\n".join(lines) + "\n", call_line


def arm_model(a, ids):
    return [0, a[1]] if a[0] == 0 else [1, to_model(a[1], ids)] if a[0] == 1 else [2]


def run_erg(ctx, erg_bin, src, tmp, name):
    p = os.path.join(tmp, name + ".er")
    open(p, "w").write(src)
    try:
        r = sh([erg_bin, "run", p], env=ctx.erg_env(), timeout=900, cwd=tmp)
    except subprocess.TimeoutExpired:
        return None, "timeout", ""
    return r.returncode, r.stdout, re.sub(r"\x1b\[[0-9;]*m", "", r.stderr + r.stdout)


def observe(ctx, erg_bin, t, arms, vals, tmp, name):
    """-> dict(accepted=bool|None, chosen={value index: arm | 'crash: ...'}, detail)"""
    src, call_line = program(t, arms, vals)
    rc, out, text = run_erg(ctx, erg_bin, src, tmp, name)
    if rc is None:
        return dict(accepted=None, detail="timeout", src=src)
    if "not all patterns" in text:
        return dict(accepted=False, detail=text[-600:], src=src)
    if rc != 0 and ("Error[#" in text) and "Traceback" not in text:
        # a call was rejected (its value is not of the type for the checker) or something else: drop the rejected calls
        bad = set(int(m) for m in re.findall(r"line (\d+)", text))
        keep = [v for ln, v in call_line.items() if ln not in bad]
        if len(keep) < len(vals) and all(ln in call_line for ln in bad):
            o = observe(ctx, erg_bin, t, arms, keep, tmp, name + "r")
            o["dropped_calls"] = len(vals) - len(keep)
            return o
        return dict(accepted=None, detail="compile error: " + text[-800:], src=src)
    outs = [l.strip() for l in out.splitlines() if l.strip()]
    chosen = {}
    for i, v in enumerate(vals):
        if i < len(outs) and re.fullmatch(r"-?\d+", outs[i]):
            chosen[i] = int(outs[i])
        else:
            chosen[i] = "crash: " + text.strip().splitlines()[-1][:200] if text.strip() else "crash"
            break   # the program stops at the first exception
    return dict(accepted=True, chosen=chosen, vals=vals, src=src, detail=text[-600:] if rc != 0 else "")


def run(ctx):
    ctx.cov["rule"] = ("(a) systematic family: scrutinee = a small integer interval of every openness (a..b, a<..b, a..<b, a<..<b) or a small "
                       "enum; arms = literals / enums / sub-intervals of every openness in a random order, covering the scrutinee completely, "
                       "all but one boundary value or all but one interior value; (b) random programs over 16 scrutinee types (Int Nat Str "
                       "Bool, enums, intervals, unions) with 1-5 literal / `_: T` / wildcard arms; (c) the corpus. Every ACCEPTED program is "
                       "run on EVERY value of an enumerable scrutinee type (else on the pool values the model puts in T) and the arm that "
                       "runs must be one whose pattern contains the value; non-trivial = accepted match with at least 2 arms")
    ctx.cov["trusted_base"] = ["Coq 8.16.1 kernel", "extraction (ExtrOcamlBasic only) + extract/driver.ml", "erg binary built from the working tree",
                               "CPython 3.11 (runs the compiled programs)", "pylib/types_gen.py"]
    ctx.assumptions = ["the sampled values are literals; an integer literal >= 0 is a Nat object at run time",
                       "set-theoretic reading of C06 (Bool = {0, 1})"]
    h = Harness(ctx, "types")
    rows, ids = translate(ctx, h)
    proof = ctx.coq(["Types/Props_C33.v"])
    model = ctx.model("Types")
    erg_bin = ctx.erg_bin()
    progs = []
    corpus = os.path.join(VERIF, "corpus", "C33")
    if os.path.isdir(corpus):
        for f in sorted(os.listdir(corpus)):
            c = json.load(open(os.path.join(corpus, f)))
            progs.append((c["t"], c["arms"]))
    seen = set(json.dumps([t, arms]) for t, arms in progs)

    def add(t, arms):
        key = json.dumps([t, arms])
        if key not in seen:
            seen.add(key)
            progs.append((t, arms))
            return True
        return False
    # the systematic family (small interval / enum scrutinee, covering or almost covering arms)
    ncov, tries = ctx.scale(110, 2500), 0
    while ncov > 0 and tries < 20000:
        tries += 1
        t, arms, mode = gen_cover(ctx.rng)
        if add(t, arms):
            ncov -= 1
            ctx.count("cover " + mode)
    nrand = ctx.scale(30, 400)
    while nrand > 0:
        t, arms = gen_match(ctx.rng)
        if add(t, arms):
            nrand -= 1
    # the values every program is run on: EVERY value of an enumerable scrutinee type, otherwise the pool
    pvals = [domain(t) or VALUES for t, arms in progs]
    # model: acceptance (-1: the union of the pattern types is outside the model), which values are in T, which arm runs
    mres = model.run([[3, to_model(t, ids), [arm_model(a, ids) for a in arms], vs] for (t, arms), vs in zip(progs, pvals)])
    todo = []
    for (t, arms), vs, m in zip(progs, pvals, mres):
        if m[0] == -1:
            ctx.count("union outside the model (acceptance not compared, run time judged)")
        vals = [v for v, d in zip(vs, m[1]) if d == 1]
        sel = [x for x, d in zip(m[2], m[1]) if d == 1]
        if len(vals) < len(vs) and domain(t) is not None:
            ctx.notes.append("model: %d enumerated values of %s are not in its reading" % (len(vs) - len(vals), erg(t)))
        todo.append((t, arms, vals, sel, None if m[0] == -1 else m[0]))
    tmp = tempfile.mkdtemp(prefix="c33-", dir=os.path.join(CACHE, "tmp") if os.path.isdir(os.path.join(CACHE, "tmp")) else None)
    with ThreadPoolExecutor(max_workers=16) as ex:
        obs = list(ex.map(lambda iq: observe(ctx, erg_bin, iq[1][0], iq[1][1], iq[1][2], tmp, "m%d" % iq[0]), enumerate(todo)))
    shutil.rmtree(tmp, ignore_errors=True)
    corr = []
    judge_cases = []
    for (t, arms, vals, sel, macc), o in zip(todo, obs):
        ctx.count("arms=%d" % len(arms))
        ctx.count("scrutinee " + KINDS.get(t[0], "?"))
        src = o.get("src", "")
        if o["accepted"] is None:
            ctx.count("unusable (%s)" % o["detail"].split(":")[0][:30])
            ctx.notes.append("unusable program: " + o["detail"][:200])
            continue
        ctx.case([t, arms], nontrivial=(o["accepted"] and len(arms) >= 2), sample={"program": src} if o["accepted"] else None)
        ctx.count("accepted" if o["accepted"] else "rejected")
        if macc is not None and o["accepted"] != bool(macc):
            ctx.count("erg accepts what the model rejects" if o["accepted"] else "erg rejects what the model accepts")
            corr.append({"t": t, "arms": arms, "program": src, "impl_accepts": o["accepted"], "model_accepts": bool(macc)})
        if o["accepted"]:
            ovals = o["vals"]
            for i, v in enumerate(ovals):
                if i not in o["chosen"]:
                    break
                c = o["chosen"][i]
                ctx.cov["evaluations"] += 1
                judge_cases.append((t, arms, v, c, src, sel[vals.index(v)] if v in vals else None))
    # judge every observation
    viol = []
    known = 0
    byprog = {}
    for t, arms, v, c, src, msel in judge_cases:
        byprog.setdefault(json.dumps([t, arms]), []).append((t, arms, v, c, src, msel))
    cases, index = [], []
    for key, lst in byprog.items():
        t, arms = lst[0][0], lst[0][1]
        cases.append([4, [arm_model(a, ids) for a in arms], [[c if isinstance(c, int) else -2, v] for (_, _, v, c, _, _) in lst]])
        index.append(lst)
    jres = model.run(cases) if cases else []
    for lst, jr in zip(index, jres):
        for (t, arms, v, c, src, msel), (j, k) in zip(lst, jr):
            if isinstance(c, int) and msel is not None and c != msel:
                corr.append({"t": t, "arms": arms, "program": src, "value": val_erg(v), "impl_arm": c, "model_arm": msel})
            if j != 1:
                if k == 1 and isinstance(c, int):
                    known += 1
                    continue
                viol.append({"t": t, "arms": arms, "program": src, "value": val_erg(v), "observed": c,
                             "what": ("the program crashes" if not isinstance(c, int) else "arm %d runs, whose pattern does not match the value" % c)})
    ctx.cov["known_class_instances"] = {"bool-int": known}
    for kf in known_entries("C33"):
        if kf.get("class") == "bool-int":
            # the witness is replayed on every run
            w = kf["witness"]
            tmp2 = tempfile.mkdtemp(prefix="c33k-")
            o = observe(ctx, erg_bin, w["t"], w["arms"], w["values"], tmp2, "k")
            shutil.rmtree(tmp2, ignore_errors=True)
            still = o["accepted"] and any(isinstance(c, int) and c == w["wrong_arm"] for c in o.get("chosen", {}).values())
            if still or known:
                ctx.known_finding(kf, "%s [%d instances in this run]" % (kf["what"], known))
            else:
                ctx.notes.append("NOTE stale-known-finding %s" % kf["id"])
    if viol:
        v = viol[0]
        ctx.violation("failing-input", "an accepted match fails at run time: for x = %s %s (%d such observations)\n%s" % (
            v["value"], v["what"], len(viol), v["program"]), case=v, impl=v["observed"], judge="no arm matched")
    elif corr or not proof.ok:
        what = []
        if not proof.ok:
            what.append("theorem(s) no longer check: " + proof.summary())
        if corr:
            what.append("%d programs/values on which checker or run time and the model differ" % len(corr))
        ctx.violation("broken-correspondence" if corr else "broken-theorem", "; ".join(what), case=corr[0] if corr else None,
                      theorem=proof.summary() or None, no_input=True)


KINDS = {2: "class", 3: "enum", 4: "interval", 10: "interval", 5: "union"}


def replay(ctx, path):
    r = json.load(open(path))
    c = r["case"]
    erg_bin = ctx.erg_bin()
    tmp = tempfile.mkdtemp(prefix="c33r-")
    vals = [v for v in VALUES if val_erg(v) == c.get("value")] or VALUES
    o = observe(ctx, erg_bin, c["t"], c["arms"], vals, tmp, "r")
    shutil.rmtree(tmp, ignore_errors=True)
    print(o.get("src"))
    print("accepted:", o["accepted"], "chosen:", o.get("chosen"), o.get("detail"))
    if o["accepted"] and any(not isinstance(x, int) for x in o.get("chosen", {}).values()):
        ctx.violation("failing-input", "the accepted match crashes at run time", case=c, impl=o.get("chosen"))
