"""C32 — refinement predicate combinators denote set operations.

proof:          coq/Pred/Props_C32.v over coq/Pred/Model.v (transcription of Predicate::{and, or, invert, gt, lt} in
                crates/erg_compiler/ty/predicate.rs): den (pand p q) = den p && den q etc. for every predicate tree,
                every integer and every valuation of the opaque atoms
correspondence: generated constructor-call trees are evaluated with erg_compiler::ty::Predicate (harness ergv-pred
                walks the public enum) and with the extracted model; compared on canonical shape (Or as a set) and
                on the truth table over [-8, 8] + every constant +-1 under four valuations of the opaque atoms
judge:          the set-operation law (coq/Pred/Spec.v law_counterexample, extracted) evaluated on the
                implementation's own operands and result of every constructor application
"""
from lib.vplib import *

REGISTRY = dict(
    category="proof",
    text="Coq model of Predicate::and/or/invert/gt/lt (coq/Pred/Model.v) with the intersection/union/complement laws "
         "proved for all predicate trees (including opaque atoms and general comparisons) and all integers; tied to "
         "erg_compiler::ty::Predicate by running generated constructor-call trees through both and comparing shape "
         "and truth tables; the extracted law judge is applied to every constructor application the implementation performed.",
    note="Trusted: Coq kernel, extraction (ExtrOcamlBasic) + generic OCaml driver, harness/pred (walks the public enum). "
         "FxHash Set = duplicate-free list in arbitrary order; constants are machine integers (Nat for >= 0, Int for < 0).",
    technique="Coq proof over hand model + correspondence (extracted model vs Predicate constructors) + extracted set-law judge",
    design="DESIGN.md §4 C32")

CUR = [1, 1, 1, 1, 1]          # Model.current
NVALS = 4
LAWS = {0: "and", 1: "or", 2: "invert", 3: "gt", 4: "lt"}


# ------------------------------------------------------------------ predicates on the python side (printing, canonical form)
def show_cst(c):
    if isinstance(c, list):
        return ("succ(%d)" if c[0] == 1 else "pred(%d)") % c[1]
    return str(c)


def show_term(t):
    return "I" if t[0] == 0 else str(t[1]) if t[0] == 1 else "c%d" % t[1]


def show(p):
    k = p[0]
    if k == 0: return "True" if p[1] else "False"
    if k in (1, 2, 3, 4): return "I %s %s" % ({1: "==", 2: "!=", 3: ">=", 4: "<="}[k], show_cst(p[1]))
    if k == 5: return "Or{" + ", ".join(show(q) for q in p[1:]) + "}"
    if k == 6: return "(" + show(p[1]) + " and " + show(p[2]) + ")"
    if k == 7: return "Not(" + show(p[1]) + ")"
    if k == 8: return "c%d" % p[1]
    if k == 9: return "[%s %s %s]" % (show_term(p[2]), {0: "==", 1: "!=", 2: ">=", 3: "<="}[p[1]], show_term(p[3]))
    if k == 99: return "<" + sx_str(p[1]) + ">"
    return str(p)


def show_tree(t):
    k = t[0]
    if k == 0: return "True" if t[1] else "False"
    if k in (1, 2, 3, 4, 5, 6): return "I %s %s" % ({1: "==", 2: "!=", 3: ">=", 4: "<=", 5: ">", 6: "<"}[k], show_cst(t[1]))
    if k == 7: return "and(" + show_tree(t[1]) + ", " + show_tree(t[2]) + ")"
    if k == 8: return "or(" + show_tree(t[1]) + ", " + show_tree(t[2]) + ")"
    if k == 9: return "invert(" + show_tree(t[1]) + ")"
    if k == 10: return "c%d" % t[1]
    if k == 11: return "raw[" + show(t[1]) + "]"
    if k == 12: return show([9, t[1], t[2], t[3]])
    if k == 13: return "%d%s%d" % (t[2], ["..", "<..", "..<", "<..<"][t[1]], t[3])
    return str(t)


def canon(p):
    """Or members sorted (a Set has no order)"""
    if not isinstance(p, list) or not p:
        return p
    if p[0] == 5:
        return [5] + sorted((canon(q) for q in p[1:]), key=lambda x: json.dumps(x))
    if p[0] in (6, 7):
        return [p[0]] + [canon(q) for q in p[1:]]
    return p


def cval(c):
    return c[1] + c[0] if isinstance(c, list) else c


def consts_of(p):
    k = p[0]
    if k in (1, 2, 3, 4): return [cval(p[1])]
    if k in (5, 6, 7): return [c for q in p[1:] for c in consts_of(q)]
    if k == 9: return [t[1] for t in (p[2], p[3]) if t[0] == 1]
    return []


def tree_consts(t):
    k = t[0]
    if k in (1, 2, 3, 4, 5, 6): return [cval(t[1])]
    if k in (7, 8, 9): return [c for q in t[1:] for c in tree_consts(q)]
    if k == 11: return consts_of(t[1])
    if k == 12: return [x[1] for x in (t[2], t[3]) if x[0] == 1]
    if k == 13: return [t[2], t[3], t[2] + 1, t[3] - 1]
    return []


def points(cs):
    s = set(range(-8, 9))
    for c in cs:
        s.update((c - 1, c, c + 1))
    return sorted(s)


def has_other(p):
    if not isinstance(p, list) or not p:
        return False
    if p[0] == 99:
        return True
    return any(has_other(q) for q in p[1:] if isinstance(q, list))


# ------------------------------------------------------------------ generators
SMALL = [-2, -1, 0, 1, 2, 3, 5, 10]
BIG = [2147483647, 2147483648, -2147483647, 9007199254740992, 9007199254740993]


def gen_const(rng, pool):
    return rng.choice(pool)


def gen_raw(rng, d, pool, atoms=True):
    """arbitrary enum values, including shapes the constructors never build"""
    r = rng.random()
    if d <= 0 or r < 0.3:
        k = rng.choice([0, 1, 2, 3, 4, 1, 3, 4, 8, 9] if atoms else [0, 1, 2, 3, 4, 1, 3, 4])
        if k == 0: return [0, rng.choice([0, 1])]
        if k == 8: return [8, rng.choice([0, 1, 2])]
        if k == 9: return [9, rng.choice([0, 1, 2, 3]), gen_term(rng, pool), gen_term(rng, pool)]
        return [k, gen_const(rng, pool)]
    k = rng.choice([5, 6, 6, 7])
    if k == 5:
        n = rng.choice([0, 1, 2, 2, 3])
        ms = []
        for _ in range(n):
            m = gen_raw(rng, d - 1, pool, atoms)
            if canon(m) not in [canon(x) for x in ms]:
                ms.append(m)
        return [5] + ms
    if k == 6: return [6, gen_raw(rng, d - 1, pool, atoms), gen_raw(rng, d - 1, pool, atoms)]
    return [7, gen_raw(rng, d - 1, pool, atoms)]


def gen_term(rng, pool):
    k = rng.choice([0, 0, 1, 1, 2])
    if k == 0: return [0]
    if k == 1: return [1, gen_const(rng, pool)]
    return [2, rng.choice([0, 1, 2])]


def gen_tree(rng, d, pool, atoms=True, raw=True):
    r = rng.random()
    if d <= 0 or r < 0.22:
        ks = [0, 1, 2, 3, 4, 5, 6, 1, 3, 4, 5, 6]
        if atoms: ks += [10, 12, 12]
        if raw: ks += [11]
        k = rng.choice(ks)
        if k == 0: return [0, rng.choice([0, 1])]
        if k == 10: return [10, rng.choice([0, 1, 2])]
        if k == 11: return [11, gen_raw(rng, 2, pool, atoms)]
        if k == 12: return [12, rng.choice([0, 1, 2, 3]), gen_term(rng, pool), gen_term(rng, pool)]
        return [k, gen_const(rng, pool)]
    k = rng.choice([7, 7, 7, 8, 8, 8, 9, 9])
    if k == 9:
        return [9, gen_tree(rng, d - 1, pool, atoms, raw)]
    a = gen_tree(rng, d - 1, pool, atoms, raw)
    # absorption / idempotence arms need syntactically equal operands: reuse a sub-tree now and then
    if rng.random() < 0.25:
        b = rng.choice(subtrees(a))
    else:
        b = gen_tree(rng, d - 1, pool, atoms, raw)
    return [k, a, b] if rng.random() < 0.5 else [k, b, a]


def focus_pool(rng):
    """constants chosen deliberately: the same one several times, its neighbours, and one far away"""
    c = rng.choice(SMALL)
    return [c, c, c, c + 1, c - 1, c + rng.choice([-7, 7])]


# ------------------------------------------------------------------ escalation when the correspondence breaks
ESC_CONSTS = [-1, 0, 1, 2, 3]
ESC_LIMIT = 20000


def atom_paths(p, path=()):
    """positions of the comparison atoms (Equal NotEqual GreaterEqual LessEqual with a plain constant) of a raw predicate"""
    if not isinstance(p, list) or not p:
        return []
    if p[0] in (1, 2, 3, 4):
        return [path] if isinstance(p[1], int) else []
    if p[0] in (5, 6, 7):
        return [x for i in range(1, len(p)) for x in atom_paths(p[i], path + (i,))]
    return []


def put(p, path, node):
    if not path:
        return node
    q = list(p)
    q[path[0]] = put(p[path[0]], path[1:], node)
    return q


def get(p, path):
    for i in path:
        p = p[i]
    return p


def shape_of(p):
    """the predicate with its comparison atoms blanked"""
    for path in atom_paths(p):
        p = put(p, path, [1, 0])
    return canon(p)


def instantiations(rng, operands, vary_kinds=True):
    """all (or, above ESC_LIMIT, a sample of) re-instantiations of the comparison atoms of the operands:
    every assignment of constants from ESC_CONSTS, and every kind among == != >= <= at each atom"""
    import itertools
    slots = [(n, path) for n, o in enumerate(operands) for path in atom_paths(o)]
    k = len(slots)
    kinds = [1, 2, 3, 4]
    total = (len(ESC_CONSTS) ** k) * ((len(kinds) ** k) if vary_kinds else 1)
    def build(cs, ks):
        ops = [o for o in operands]
        for (n, path), c, kd in zip(slots, cs, ks):
            ops[n] = put(ops[n], path, [kd, c])
        return ops
    orig_kinds = [get(operands[n], path)[0] for n, path in slots]
    if total <= ESC_LIMIT:
        for cs in itertools.product(ESC_CONSTS, repeat=k):
            for ks in (itertools.product(kinds, repeat=k) if vary_kinds else [orig_kinds]):
                yield build(cs, ks)
    else:
        if len(ESC_CONSTS) ** k <= ESC_LIMIT // 2:
            for cs in itertools.product(ESC_CONSTS, repeat=k):
                yield build(cs, orig_kinds)
        for _ in range(ESC_LIMIT // 2):
            yield build([rng.choice(ESC_CONSTS) for _ in range(k)],
                        [rng.choice(kinds) for _ in range(k)] if vary_kinds else orig_kinds)


def dedup_or(p):
    """a Set has no duplicates: drop repeated Or members produced by re-instantiation"""
    if not isinstance(p, list) or not p:
        return p
    if p[0] == 5:
        out = []
        for q in p[1:]:
            q = dedup_or(q)
            if canon(q) not in [canon(x) for x in out]:
                out.append(q)
        return [5] + out
    if p[0] in (6, 7):
        return [p[0]] + [dedup_or(q) for q in p[1:]]
    return p


def disagreeing_applications(model, results):
    """constructor applications on which the model, given the implementation's own operands, builds something else"""
    apps, trees = [], []
    for r in results:
        for a in r.get("apps", []):
            if a[0] in (0, 1):
                t = [7 + a[0], [11, a[1]], [11, a[2]]]
            elif a[0] == 2:
                t = [9, [11, a[1]]]
            else:
                t = [a[0] + 2, a[3]]
            apps.append(a); trees.append(t)
    out, seen = [], set()
    for a, t, mo in zip(apps, trees, model.run([[0, CUR, t] for t in trees]) if trees else []):
        if canon(mo) != canon(a[4]):
            key = json.dumps([a[0], shape_of(a[1]), shape_of(a[2])])
            if key not in seen:
                seen.add(key)
                out.append(a)
    return out


def escalate(ctx, h, model, disagreeing):
    """search for a failing input around a broken correspondence: (1) every tree of depth <= 2 over the comparison
    atoms with constants {0, 1}; (2) every re-instantiation (constants, atom kinds) of each disagreeing application"""
    found = []
    leaves = [[k, c] for k in (1, 2, 3, 4) for c in (0, 1)]
    ex = all_trees(2, leaves)
    ctx.cov["escalation_exhaustive"] = "all %d trees of depth<=2 over == != >= <= with constants {0,1}" % len(ex)
    for off in range(0, len(ex), 20000):
        for r in run_batch(ctx, h, model, ex[off:off + 20000], record=False, tables=False):
            ctx.count("escalation: exhaustive tree")
            if r["judge"] or r["panic"]:
                found.append(r)
        if found:
            return found
    apps = disagreeing_applications(model, disagreeing)[:12]
    ctx.cov["escalation_reinstantiated_applications"] = [{"law": LAWS[a[0]], "operands": [show(a[1]), show(a[2])]} for a in apps]
    for a in apps:
        if a[0] > 2:
            continue
        ops = [a[1]] if a[0] == 2 else [a[1], a[2]]
        trees = []
        for inst in instantiations(ctx.rng, ops):
            inst = [dedup_or(o) for o in inst]
            trees.append([9, [11, inst[0]]] if a[0] == 2 else [7 + a[0], [11, inst[0]], [11, inst[1]]])
        for off in range(0, len(trees), 20000):
            for r in run_batch(ctx, h, model, trees[off:off + 20000], record=False, tables=False):
                ctx.count("escalation: re-instantiated application")
                if r["judge"] or r["panic"]:
                    found.append(r)
            if found:
                return found
    return found


def subtrees(t):
    out = [t]
    if t[0] in (7, 8, 9):
        for q in t[1:]:
            out += subtrees(q)
    return out


def all_trees(depth, leaves):
    """every tree up to the given depth over the given leaves"""
    cur = list(leaves)
    for _ in range(depth):
        nxt = list(leaves)
        nxt += [[9, a] for a in cur]
        nxt += [[k, a, b] for k in (7, 8) for a in cur for b in cur]
        cur = nxt
    return cur


# ------------------------------------------------------------------ one batch
def run_batch(ctx, h, model, trees, record=True, tables=True):
    """returns list of dicts(tree, impl, model, shape_ok, table_ok, judge) ; judge = None or failing application"""
    impl = h.run([[0, t] for t in trees])
    mod = model.run([[0, CUR, t] for t in trees])
    res = []
    tab_cases, law_cases, law_ix = [], [], []
    for n, (t, im, mo) in enumerate(zip(trees, impl, mod)):
        r = {"tree": t, "impl": im, "model": mo, "shape_ok": False, "table_ok": False, "judge": None, "panic": False}
        res.append(r)
        if not isinstance(im, list) or not im or im[0] == -999 or im[0] == -997:
            r["panic"] = True
            continue
        final, apps = im[0], im[1:]
        r["final"] = final
        r["apps"] = apps
        if has_other(final) or any(has_other(a) for a in apps):
            r["foreign"] = True      # the implementation built something outside the modelled enum fragment
            continue
        r["shape_ok"] = canon(final) == canon(mo)
        pts = points(tree_consts(t) + consts_of(final) + consts_of(mo))
        r["pts"] = pts
        if tables:
            for k in range(NVALS):
                tab_cases.append([3, final, pts, k]); tab_cases.append([3, mo, pts, k])
        for a in apps:
            law_cases.append([4, a[0], a[1], a[2], a[3], a[4], pts]); law_ix.append((n, a))
    tabs = model.run(tab_cases) if tab_cases else []
    laws = model.run(law_cases) if law_cases else []
    ti = 0
    for r in res:
        if "pts" not in r:
            continue
        if not tables:
            r["table_ok"] = True
            continue
        ok = True
        for k in range(NVALS):
            if tabs[ti] != tabs[ti + 1]:
                ok = False
                r["table_diff"] = {"valuation": k, "at": [i for i, a, b in zip(r["pts"], tabs[ti], tabs[ti + 1]) if a != b][:5]}
            ti += 2
        r["table_ok"] = ok
    for (n, a), out in zip(law_ix, laws):
        if out and res[n]["judge"] is None:
            res[n]["judge"] = {"law": LAWS[a[0]], "operands": [show(a[1]), show(a[2])] if a[0] < 2 else [show(a[1])] if a[0] == 2 else [show_cst(a[3])],
                               "result": show(a[4]), "valuation": out[0], "integer": out[1], "application": a}
    return res


def minimise(ctx, h, model, tree):
    """smallest sub-tree whose evaluation still contains a failing application (one batch)"""
    subs = sorted(subtrees(tree), key=lambda x: len(json.dumps(x)))
    for s, r in zip(subs, run_batch(ctx, h, model, subs, record=False)):
        if r["judge"] or r["panic"]:
            return s
    return tree


def report_failure(ctx, h, model, r):
    small = minimise(ctx, h, model, r["tree"])
    rr = run_batch(ctx, h, model, [small], record=False)[0]
    j = rr["judge"] or r["judge"]
    if rr["panic"] and not j:
        what = "Predicate constructor panics on %s" % show_tree(small)
    else:
        what = ("Predicate::%s(%s) = %s is not the %s of its operand(s): differs at I = %d (valuation %d of the opaque atoms)"
                % (j["law"], ", ".join(j["operands"]), j["result"],
                   {"and": "intersection", "or": "union", "invert": "complement", "gt": "set I > c", "lt": "set I < c"}[j["law"]],
                   j["integer"], j["valuation"]))
    ctx.violation("failing-input", what,
                  case={"tree": small, "readable": show_tree(small),
                        "encoding": "0 Value | 1 eq 2 ne 3 ge 4 le 5 gt 6 lt c | 7 and 8 or 9 invert | 10 atom | 11 raw enum value | 12 general comparison"},
                  impl=show(rr["final"]) if "final" in rr else rr["impl"], model=show(rr["model"]) if isinstance(rr["model"], list) else rr["model"], judge=j)


def run(ctx):
    ctx.cov["rule"] = ("constructor-call trees (eq ne ge le gt lt and or invert over constants from {-2..10} plus a few 32/53-bit "
                       "boundary values, opaque atoms, general comparisons `3 <= I`, raw enum values the constructors never build) "
                       "of depth <= 4 from the seeded PRNG, with re-used sub-trees so that the absorption arms fire and, in half of the trees, constants drawn around one focus value (equal / adjacent / far); when the correspondence or a theorem breaks the same run escalates to every tree of depth <= 2 over == != >= <= x {0,1} and to every re-instantiation of the disagreeing applications; thorough adds every tree of "
                       "depth <= 2 over 7 leaves; non-trivial = distinct tree with at least one and/or/invert application whose operands and result are not Value")
    ctx.cov["trusted_base"] = ["Coq 8.16.1 kernel", "extraction (ExtrOcamlBasic only) + extract/driver.ml",
                               "harness/pred/src/main.rs (calls Predicate::{eq,ne,ge,le,gt,lt,and,or,invert}, walks the public enum)",
                               "modelled, not verified: FxHashSet semantics (duplicate-free list), derived PartialEq on Predicate"]
    ctx.assumptions = ["constants are integers with -2^31 < c < 2^63 (ValueObj::Int for negatives, ValueObj::Nat otherwise)",
                       "Value(_) holds a Bool; Call/Attr atoms behave like Const atoms under and/or/invert (no arm inspects them)"]
    proof = ctx.coq(["Pred/Props_C32.v"])
    h = Harness(ctx, "pred")
    model = ctx.model("Pred")
    trees = []
    corpus = os.path.join(VERIF, "corpus", "C32")
    if os.path.isdir(corpus):
        for f in sorted(os.listdir(corpus)):
            if f.endswith(".json"):
                trees.append(json.load(open(os.path.join(corpus, f)))["tree"])
    n = ctx.scale(4000, 100000)
    for i in range(n):
        x = ctx.rng.random()
        pool = focus_pool(ctx.rng) if x < 0.45 else SMALL if x < 0.92 else SMALL + BIG
        style = ctx.rng.random()
        d = ctx.rng.choice([1, 2, 2, 3, 3, 4])
        trees.append(gen_tree(ctx.rng, d, pool, atoms=style < 0.5, raw=style < 0.75))
    # malformed stream: raw enum values only (shapes no constructor produces) under one combinator
    for i in range(ctx.scale(600, 12000)):
        k = ctx.rng.choice([7, 8, 9])
        a = [11, gen_raw(ctx.rng, 3, SMALL)]
        trees.append([9, a] if k == 9 else [k, a, [11, gen_raw(ctx.rng, 2, SMALL)]])
        ctx.count("malformed(raw enum operands)")
    if ctx.thorough:
        leaves = [[0, 1], [1, 1], [3, 1], [5, 1], [4, 2], [10, 0], [12, 3, [1, 1], [0]]]
        ex = all_trees(2, leaves)
        ctx.cov["exhaustive_small_scope"] = "all %d trees of depth<=2 over 7 leaves" % len(ex)
        trees += ex
    n_corr = n_judge = n_foreign = 0
    first_corr = None
    disagreeing = []
    B = 20000
    for off in range(0, len(trees), B):
        for r in run_batch(ctx, h, model, trees[off:off + B]):
            t = r["tree"]
            apps = r.get("apps", [])
            nt = any(a[0] <= 2 and a[1][0] != 0 and a[4][0] != 0 and (a[0] == 2 or a[2][0] != 0) for a in apps)
            ctx.case(t, nontrivial=nt, sample={"tree": show_tree(t), "built": show(r["final"]) if "final" in r else None})
            for a in apps:
                ctx.count("apply " + LAWS[a[0]])
            ctx.count("depth %d" % depth(t))
            if r.get("foreign"):
                n_foreign += 1
                continue
            if r["judge"] or r["panic"]:
                n_judge += 1
                if n_judge <= 3:
                    report_failure(ctx, h, model, r)
            elif not (r["shape_ok"] and r["table_ok"]):
                n_corr += 1
                if len(disagreeing) < 200:
                    disagreeing.append(r)
                first_corr = first_corr or {"tree": t, "readable": show_tree(t), "impl": show(r["final"]), "model": show(r["model"]),
                                            "shape_equal": r["shape_ok"], "truth_table_equal": r["table_ok"], "table_diff": r.get("table_diff")}
    ctx.cov["trees_compared"] = len(trees)
    if n_foreign:
        ctx.notes.append("%d trees produced a predicate outside the modelled enum fragment" % n_foreign)
        if n_judge == 0:
            ctx.violation("broken-correspondence", "the implementation built predicates outside the modelled fragment (enum changed?)",
                          case=None, no_input=True)
    if n_judge == 0 and (n_corr or not proof.ok):
        # the tie is broken but no generated tree fails the law: look harder before saying so
        for r in escalate(ctx, h, model, disagreeing)[:3]:
            n_judge += 1
            report_failure(ctx, h, model, r)
    if n_judge == 0 and (n_corr or not proof.ok):
        what = []
        if not proof.ok:
            what.append("theorem(s) no longer check: " + proof.summary())
        if n_corr:
            what.append("%d trees on which the model and Predicate::{and,or,invert} build different predicates; every application still satisfies the set law" % n_corr)
        ctx.violation("broken-correspondence" if n_corr else "broken-theorem", "; ".join(what), case=first_corr,
                      theorem=proof.summary() or None, no_input=True)


def depth(t):
    if t[0] in (7, 8, 9):
        return 1 + max(depth(q) for q in t[1:])
    return 0


def replay(ctx, path):
    r = json.load(open(path))
    h = Harness(ctx, "pred")
    model = ctx.model("Pred")
    t = r["case"]["tree"]
    rr = run_batch(ctx, h, model, [t])[0]
    print("tree :", show_tree(t))
    print("impl :", show(rr["final"]) if "final" in rr else rr["impl"])
    print("model:", show(rr["model"]))
    print("shape equal:", rr["shape_ok"], " truth tables equal:", rr["table_ok"])
    print("judge:", rr["judge"])
    if rr["judge"] or rr["panic"]:
        report_failure(ctx, h, model, rr)
