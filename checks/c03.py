"""C03 — refinement subtyping is sound for integer predicates.

proof:          coq/Pred/Props_C03.v over coq/Pred/Model.v (transcription of Context::subtype_of on Int/Nat refinement
                types: cheap_supertype_of, the (Refinement, Refinement) arm of structural_supertype_of with the
                possible_tps shortcut, is_super_pred_of + reduce_preds + try_cmp, the nominal path):
                accept_sound, fuel_enough, no_panic, window_complete, interval_den, and the *_refuted witnesses for the
                code before each repair and for the known class
correspondence: generated predicate pairs are decided in-process by Context::subtype_of on refinement types built with
                the real constructors (harness ergv-pred) and by the extracted model (identity order oracle; on a
                disagreement the other oracles of perm_k are tried, since hash-set iteration order is not observable);
                an end-to-end subset goes through `erg check` of g(x: {I: Int | P}): {I: Int | Q} = x, which also
                ties the lowering of <, >, ~, a..b, a<..b to the model's constructors
judge:          exact implication over all integers by the extracted implies_dec (window_complete) applied to the
                predicates the implementation itself built; accepted + not implied = failing input
"""
import concurrent.futures
import tempfile

from lib.vplib import *
from checks import c32
from checks.c32 import show, show_tree, canon, has_other, CUR

REGISTRY = dict(
    category="proof",
    text="Coq model of Context::subtype_of on Int/Nat refinement types (is_super_pred_of with reduce_preds, try_cmp, the "
         "possible_tps shortcut, base-type handling, nominal path) with accept_sound proved for all integer-fragment predicates "
         "and every hash-set iteration order; tied to the checker by in-process subtype_of on generated predicate pairs and by an "
         "end-to-end `erg check` subset; an extracted, proved-complete implication judge decides every accepted pair.",
    note="Trusted: Coq kernel, extraction (ExtrOcamlBasic) + generic OCaml driver, harness/pred. Known finding: the "
         "(Refinement, class) arm (mentions/can_be_false) reached for a Nat-based subtype under an Int-based supertype. "
         "Constants -2^31 < c < 2^63; `not(...)` written as a call is an opaque Predicate::Call and outside the model (`~` is the negation).",
    technique="Coq proof over hand model + correspondence (extracted model vs Context::subtype_of, CLI subset) + extracted implication judge",
    design="DESIGN.md §4 C03")

ORACLES = 6          # perm_k 0..5
KNOWN = os.path.join(VERIF, "known", "C03.json")


# ------------------------------------------------------------------ Erg source
def src_pred(t):
    k = t[0]
    if k == 0: return "True" if t[1] else "False"
    if k in (1, 2, 3, 4, 5, 6): return "I %s %d" % ({1: "==", 2: "!=", 3: ">=", 4: "<=", 5: ">", 6: "<"}[k], t[1])
    if k == 7: return "(%s and %s)" % (src_pred(t[1]), src_pred(t[2]))
    if k == 8: return "(%s or %s)" % (src_pred(t[1]), src_pred(t[2]))
    if k == 9: return "~(%s)" % src_pred(t[1])
    return None


def expressible(t):
    k = t[0]
    if k == 13: return True
    if k in (0, 1, 2, 3, 4, 5, 6): return k == 0 or (isinstance(t[1], int) and abs(t[1]) < 2 ** 31)
    if k in (7, 8, 9): return all(expressible(q) and q[0] != 13 for q in t[1:])
    return False


def src_type(b, t):
    if t[0] == 13:
        return "%d%s%d" % (t[2], ["..", "<..", "..<", "<..<"][t[1]], t[3])
    return "{I: %s | %s}" % ("Nat" if b else "Int", src_pred(t))


def src_raw(p):
    """closest Erg spelling of a dumped predicate value"""
    k = p[0]
    if k == 0: return "True" if p[1] else "False"
    if k in (1, 2, 3, 4): return "I %s %s" % ({1: "==", 2: "!=", 3: ">=", 4: "<="}[k], c32.show_cst(p[1]))
    if k == 5: return "(" + " or ".join(src_raw(q) for q in p[1:]) + ")" if len(p) > 1 else "False"
    if k == 6: return "(%s and %s)" % (src_raw(p[1]), src_raw(p[2]))
    if k == 7: return "~(%s)" % src_raw(p[1])
    return show(p)


def program(case):
    tp, tq, bp, bq = case
    if expressible(tp) and expressible(tq):
        return "g(x: %s): %s = x" % (src_type(bp, tp), src_type(bq, tq))
    return None


# ------------------------------------------------------------------ generators
POOLS = [[0, 1, 2, 3], [-2, -1, 0, 1, 2], [0, 5, 10], [1, 2], c32.SMALL]


def gen_side(rng, pool, d):
    style = rng.random()
    if style < 0.08:
        a, b = sorted([rng.choice(pool), rng.choice(pool)])
        return [13, rng.choice([0, 0, 1, 2, 3]), a, b]
    if style < 0.2:
        return [11, c32.gen_raw(rng, d, pool, atoms=False)]
    return c32.gen_tree(rng, d, pool, atoms=False, raw=style < 0.4)


def side_base(rng, t):
    if t[0] == 13:
        return 1 if (t[2] >= 0 and t[3] >= 0) else 0     # class of the interval bounds
    return rng.choice([0, 0, 0, 1])


def related(rng, t, pool):
    """a predicate related to t: weaken / strengthen so that acceptance paths are exercised"""
    r = rng.random()
    if r < 0.3: return [8, t, gen_side(rng, pool, 1)] if t[0] != 13 else t
    if r < 0.6: return [7, t, gen_side(rng, pool, 1)] if t[0] != 13 else t
    if r < 0.8 and t[0] in (7, 8): return rng.choice(t[1:])
    return t


def gen_case(rng):
    pool = rng.choice(POOLS)
    if rng.random() < 0.05:
        pool = pool + c32.BIG
    d = rng.choice([0, 1, 1, 2, 2, 3])
    p = gen_side(rng, pool, d)
    if rng.random() < 0.35:
        q = related(rng, p, pool)
        if rng.random() < 0.5:
            p, q = q, p
    else:
        q = gen_side(rng, pool, d)
    return [p, q, side_base(rng, p), side_base(rng, q)]


def all_cases(consts):
    """every pair of depth<=1 trees over the given constants, Int bases"""
    atoms = [[k, c] for k in (1, 2, 3, 4, 5, 6) for c in consts]
    d1 = atoms + [[9, a] for a in atoms[:len(consts) * 2]] + [[k, a, b] for k in (7, 8) for a in atoms for b in atoms if a != b]
    return [[p, q, 0, 0] for p in d1 for q in d1]


# ------------------------------------------------------------------ running
class Run:
    def __init__(self, ctx):
        self.ctx = ctx
        self.h = Harness(ctx, "pred")
        self.model = ctx.model("Pred")

    def decide(self, cases):
        """-> list of dict(case, impl(verdict|None), P, Q, model, oracle, implied, cex, known, wf, panic)"""
        impl = self.h.run([[1] + c for c in cases])
        mod = self.model.run([[1, CUR, 0] + c for c in cases])
        out = []
        jc, ji = [], []
        for n, (c, im, mo) in enumerate(zip(cases, impl, mod)):
            r = {"case": c, "impl": None, "model": mo, "oracle": 0, "panic": None, "foreign": False}
            out.append(r)
            if not (isinstance(im, list) and len(im) == 3):
                r["panic"] = sx_str(im[1]) if isinstance(im, list) and len(im) > 1 and isinstance(im[1], list) else str(im)
                continue
            r["impl"], r["P"], r["Q"] = im
            if has_other(im):
                r["foreign"] = True
                continue
            jc.append([2, im[1], im[2], c[2], c[3]]); ji.append(n)
        for n, j in zip(ji, self.model.run(jc) if jc else []):
            out[n].update(implied=bool(j[0]), cex=j[1][0] if j[1] else None, known=bool(j[2]), wf=bool(j[3]))
        # the same question about what the two trees mean (the predicates the model's constructors build, whose
        # denotation is the set meaning of and/or/not by the C32 theorems): catches a constructor that builds the wrong set
        if ji:
            built = self.model.run([[5, cases[n][0]] for n in ji] + [[5, cases[n][1]] for n in ji])
            js = self.model.run([[2, built[i], built[len(ji) + i], cases[n][2], cases[n][3]] for i, n in enumerate(ji)])
            for i, (n, j) in enumerate(zip(ji, js)):
                out[n].update(implied_src=bool(j[0]), cex_src=j[1][0] if j[1] else None, known_src=bool(j[2]),
                              P_src=built[i], Q_src=built[len(ji) + i])
        # hash-set iteration order is not observable: a disagreement under the identity order is retried under the others
        dis = [n for n in ji if out[n]["impl"] != out[n]["model"]]
        for k in range(1, ORACLES):
            if not dis:
                break
            res = self.model.run([[1, CUR, k] + cases[n] for n in dis])
            still = []
            for n, v in zip(dis, res):
                if v == out[n]["impl"]:
                    out[n]["model"], out[n]["oracle"] = v, k
                else:
                    still.append(n)
            dis = still
        return out

    def cli(self, progs):
        """erg check on each program text -> list of bool accepted"""
        b = self.ctx.erg_bin()
        env = self.ctx.erg_env()
        d = tempfile.mkdtemp(prefix="c03-", dir=CACHE)

        def one(i):
            f = os.path.join(d, "p%d.er" % i)
            open(f, "w").write(progs[i] + "\n")
            p = sh([b, "check", f], env=env, timeout=300)
            return p.returncode == 0, (p.stdout + p.stderr)[-400:]
        with concurrent.futures.ThreadPoolExecutor(max_workers=8) as ex:
            res = list(ex.map(one, range(len(progs))))
        shutil.rmtree(d, ignore_errors=True)
        return res


def unsound(r):
    """accepted, but the predicates the implementation built are not in the subset relation"""
    return r["impl"] == 1 and r.get("implied") is False


def unsound_src(r):
    """accepted, but what the two predicate expressions mean is not in the subset relation"""
    return r["impl"] == 1 and r.get("implied_src") is False


def failing(r):
    """a failing input of the property outside the known class"""
    return (unsound(r) and not r["known"]) or (unsound_src(r) and not r["known"] and not r.get("known_src"))


def describe(r):
    c = r["case"]
    prog = program(c)
    if unsound(r) and not r["known"]:
        P, Q, cex = r["P"], r["Q"], r["cex"]
    else:
        P, Q, cex = r["P_src"], r["Q_src"], r["cex_src"]
    p = "{I: %s | %s}" % ("Nat" if c[2] else "Int", src_raw(P))
    q = "{I: %s | %s}" % ("Nat" if c[3] else "Int", src_raw(Q))
    s = "the checker accepts %s where %s is required, but %d satisfies the first and not the second" % (p, q, cex)
    if prog:
        s += "; Erg source: `%s`, e.g. `print! g(%d)`" % (prog, cex)
    else:
        s += "; as source: `g(x: %s): %s = x`" % (p, q)
    if not (unsound(r) and not r["known"]):
        s += " (the implementation's constructors built %s and %s for the two predicate expressions)" % (show(r["P"]), show(r["Q"]))
    return s


# ------------------------------------------------------------------ escalation when the correspondence breaks
def tree_atoms(t, path=()):
    """positions of the comparison atoms of a constructor-call tree: (path, admissible kinds)"""
    k = t[0]
    if k in (1, 2, 3, 4, 5, 6):
        return [(path, (1, 2, 3, 4, 5, 6))] if isinstance(t[1], int) else []
    if k in (7, 8, 9):
        return [x for i in range(1, len(t)) for x in tree_atoms(t[i], path + (i,))]
    if k == 11:
        return [(path + (1,) + q, (1, 2, 3, 4)) for q in c32.atom_paths(t[1])]
    return []


def desugar(t):
    """spell > < and the negation of a comparison with the constructors they are built from, so that every
    comparison with a constant is an atom of its own: I > c is and(I >= c, I != c)"""
    k = t[0]
    if k == 5 and isinstance(t[1], int): return [7, [3, t[1]], [2, t[1]]]
    if k == 6 and isinstance(t[1], int): return [7, [4, t[1]], [2, t[1]]]
    if k == 9:
        a = t[1]
        if a[0] in (1, 2, 3, 4, 5, 6) and isinstance(a[1], int):
            c = a[1]
            return {1: [2, c], 2: [1, c], 3: [7, [4, c], [2, c]], 4: [7, [3, c], [2, c]], 5: [4, c], 6: [3, c]}[a[0]]
        return [9, desugar(a)]
    if k in (7, 8):
        return [k, desugar(t[1]), desugar(t[2])]
    return t


def pair_shape(c):
    def blank(t):
        t = desugar(t)
        for path, _ in tree_atoms(t):
            t = c32.put(t, path, [1, 0])
        return t
    return json.dumps([blank(c[0]), blank(c[1]), c[2], c[3]])


def reinstantiate(rng, case, limit=20000):
    """all (above `limit`: a sample of) assignments of constants from ESC_CONSTS and of comparison kinds to the atoms of a pair"""
    import itertools
    case = [desugar(case[0]), desugar(case[1]), case[2], case[3]]
    slots = [(0, p, (1, 2, 3, 4)) for p, ks in tree_atoms(case[0])] + [(1, p, (1, 2, 3, 4)) for p, ks in tree_atoms(case[1])]
    k = len(slots)

    def build(cs, kinds):
        sides = [case[0], case[1]]
        for (n, path, _), c, kd in zip(slots, cs, kinds):
            sides[n] = c32.put(sides[n], path, [kd, c])
        sides = [[11, c32.dedup_or(t[1])] if t[0] == 11 else t for t in sides]
        return [sides[0], sides[1], case[2], case[3]]
    total = len(c32.ESC_CONSTS) ** k
    for _, _, ks in slots:
        total *= len(ks)
    if total <= limit:
        for cs in itertools.product(c32.ESC_CONSTS, repeat=k):
            for kinds in itertools.product(*[ks for _, _, ks in slots]):
                yield build(cs, kinds)
    else:
        orig = [c32.get(case[n], path)[0] for n, path, _ in slots]
        if len(c32.ESC_CONSTS) ** k <= limit // 2:
            for cs in itertools.product(c32.ESC_CONSTS, repeat=k):
                yield build(cs, orig)
        for _ in range(limit // 2):
            yield build([rng.choice(c32.ESC_CONSTS) for _ in range(k)], [rng.choice(ks) for _, _, ks in slots])


def escalate(ctx, run_, disagreeing):
    """search for a failing input around a broken correspondence: (1) every pair of depth<=1 trees over constants {0,1};
    (2) every re-instantiation (constants, comparison kinds) of the disagreeing pairs"""
    ex = all_cases([0, 1])
    ctx.cov["escalation_exhaustive"] = "all %d pairs of depth<=1 trees over constants {0,1}" % len(ex)
    for off in range(0, len(ex), 20000):
        found = [r for r in run_.decide(ex[off:off + 20000]) if failing(r)]
        ctx.count("escalation: exhaustive pair", len(ex[off:off + 20000]))
        if found:
            return found
    shapes, picked = set(), []
    for c in disagreeing:
        sh = pair_shape(c)
        if sh not in shapes and tree_atoms(c[0]) + tree_atoms(c[1]):
            shapes.add(sh)
            picked.append(c)
    ctx.cov["escalation_reinstantiated_pairs"] = [[show_tree(c[0]), show_tree(c[1])] for c in picked[:8]]
    for c in picked[:8]:
        cases = list(reinstantiate(ctx.rng, c))
        ctx.count("escalation: re-instantiated pair", len(cases))
        found = [r for r in run_.decide(cases) if failing(r)]
        if found:
            return found
    return []


def shrink_case(run, case, keep):
    """greedy: replace a node by one of its children while `keep(result)` still holds"""
    def variants(t):
        out = []
        if t[0] in (7, 8, 9):
            out += [q for q in t[1:]]
            for i in range(1, len(t)):
                for v in variants(t[i]):
                    out.append(t[:i] + [v] + t[i + 1:])
        elif t[0] == 11:
            out += [[11, v] for v in raw_variants(t[1])]
        return out

    def raw_variants(p):
        out = []
        if p[0] in (5, 6, 7):
            out += [q for q in p[1:]]
            for i in range(1, len(p)):
                for v in raw_variants(p[i]):
                    out.append(p[:i] + [v] + p[i + 1:])
            if p[0] == 5 and len(p) > 2:
                out += [p[:i] + p[i + 1:] for i in range(1, len(p))]
        return out
    cur = case
    for _ in range(12):
        cands = [[v, cur[1], cur[2], cur[3]] for v in variants(cur[0])] + [[cur[0], v, cur[2], cur[3]] for v in variants(cur[1])]
        cands = [c for c in cands if c[0][0] != 13 or c[2] == side_base(None, c[0])]
        if not cands:
            break
        cands.sort(key=lambda c: len(json.dumps(c)))
        res = run.decide(cands[:60])
        ok = [r for r in res if keep(r)]
        if not ok:
            break
        cur = ok[0]["case"]
    return cur


def known_entries():
    return json.load(open(KNOWN)) if os.path.exists(KNOWN) else []


def run(ctx):
    ctx.cov["rule"] = ("pairs of predicates (constructor-call trees over ==, !=, <=, >=, <, >, and, or, ~, interval forms a..b a<..b a..<b a<..<b, "
                       "raw enum values, constants from small pools plus 32/53-bit boundary values; a third of the pairs are weakenings/strengthenings "
                       "of one another) with Int/Nat bases from the seeded PRNG; every accepted pair is judged twice: on the predicates the implementation built and on the meaning of the two predicate expressions; when the correspondence or a theorem breaks the same run escalates to every pair of depth<=1 trees over constants {0,1} and to every re-instantiation of the disagreeing pairs; thorough adds every pair of depth<=1 trees over constants {0,1}; "
                       "non-trivial = distinct pair with a comparison on both sides and syntactically different predicates")
    ctx.cov["trusted_base"] = ["Coq 8.16.1 kernel", "extraction (ExtrOcamlBasic only) + extract/driver.ml",
                               "harness/pred/src/main.rs (Predicate constructors, constructors::{refinement, interval}, Context::subtype_of, ASTLowerer)",
                               "modelled, not verified: FxHashSet semantics (duplicate-free list + arbitrary iteration order), derived PartialEq, eval_app(succ/pred)"]
    ctx.assumptions = ["constants are integers with -2^31 < c < 2^63",
                       "predicates are well-formed in the sense of Spec.wf: succ(c)/pred(c) occur only where the open-interval sugar puts them",
                       "the builtin context is the one ASTLowerer creates for an empty module (no user-defined patches on Int/Nat)",
                       "`not(P)` spelled as a call lowers to an opaque Predicate::Call and is not in the modelled fragment (`~P` is)"]
    proof = ctx.coq(["Pred/Props_C03.v"])
    run_ = Run(ctx)
    cases = []
    corpus = os.path.join(VERIF, "corpus", "C03")
    if os.path.isdir(corpus):
        for f in sorted(os.listdir(corpus)):
            if f.endswith(".json"):
                cases.append(json.load(open(os.path.join(corpus, f)))["case"])
    ncorpus = len(cases)
    for _ in range(ctx.scale(3000, 50000)):
        cases.append(gen_case(ctx.rng))
    # malformed stream: raw enum values on both sides (shapes no constructor produces: Or{}, And(True, x), Not(Not x), nested Or)
    for _ in range(ctx.scale(500, 6000)):
        pool = ctx.rng.choice(POOLS)
        cases.append([[11, c32.gen_raw(ctx.rng, 3, pool, atoms=False)], [11, c32.gen_raw(ctx.rng, 3, pool, atoms=False)],
                      ctx.rng.choice([0, 0, 1]), ctx.rng.choice([0, 0, 1])])
        ctx.count("malformed(raw enum values)")
    if ctx.thorough:
        ex = all_cases([0, 1])
        ctx.cov["exhaustive_small_scope"] = "all %d pairs of depth<=1 trees over constants {0,1}" % len(ex)
        cases += ex
    results = []
    B = 25000
    for off in range(0, len(cases), B):
        results += run_.decide(cases[off:off + B])
    n_dis = n_bad = n_known = n_panic = n_foreign = n_oracle = 0
    first_dis = None
    bad = []
    disagreeing = []
    for r in results:
        c = r["case"]
        if r["panic"] is not None:
            n_panic += 1
            ctx.case(c, nontrivial=False)
            first_dis = first_dis or {"case": c, "readable": [show_tree(c[0]), show_tree(c[1])], "impl": "panic: " + r["panic"][:200], "model": r["model"]}
            continue
        if r["foreign"]:
            n_foreign += 1
            ctx.case(c, nontrivial=False)
            continue
        nt = bool(c32.consts_of(r["P"])) and bool(c32.consts_of(r["Q"])) and canon(r["P"]) != canon(r["Q"])
        ctx.case(c, nontrivial=nt, sample={"sub": "{I: %s | %s}" % ("Nat" if c[2] else "Int", show(r["P"])),
                                           "sup": "{I: %s | %s}" % ("Nat" if c[3] else "Int", show(r["Q"])),
                                           "accepted": r["impl"], "implied": r.get("implied")})
        ctx.count("bases %s<:%s" % ("Nat" if c[2] else "Int", "Nat" if c[3] else "Int"))
        ctx.count("accepted" if r["impl"] else ("rejected, implied (incomplete)" if r.get("implied") else "rejected, not implied"))
        if r["oracle"]:
            n_oracle += 1
        if failing(r):
            n_bad += 1
            bad.append(r)
        elif unsound(r) or unsound_src(r):
            n_known += 1
        elif r["impl"] != r["model"] or canon(r["P"]) != canon(r["P_src"]) or canon(r["Q"]) != canon(r["Q_src"]):
            n_dis += 1
            if len(disagreeing) < 400:
                disagreeing.append(c)
            first_dis = first_dis or {"case": c, "readable": [show_tree(c[0]), show_tree(c[1])], "sub": show(r["P"]), "sup": show(r["Q"]),
                                      "model_builds": [show(r["P_src"]), show(r["Q_src"])],
                                      "impl": r["impl"], "model": r["model"], "implied": r.get("implied")}
    ctx.cov["pairs_decided"] = len(results)
    ctx.cov["agree_only_under_another_iteration_order"] = n_oracle
    ctx.cov["accepted_in_known_class"] = n_known
    if n_panic:
        ctx.notes.append("%d pairs made Context::subtype_of panic" % n_panic)

    # ---- end-to-end subset through the CLI (lowering of the sugar + the function-return form)
    e2e = [r for r in results[ncorpus:] if r["impl"] is not None and not r["foreign"] and program(r["case"])]
    e2e_acc = [r for r in e2e if r["impl"] == 1][:ctx.scale(24, 120)]
    e2e_rej = [r for r in e2e if r["impl"] == 0][:ctx.scale(24, 120)]
    corp = [r for r in results[:ncorpus] if program(r["case"])]
    sel = corp + e2e_acc + e2e_rej
    progs = [program(r["case"]) for r in sel]
    low = run_.h.run([[2, p + "\n"] for p in progs]) if progs else []
    mshape = run_.model.run([[5, r["case"][0]] for r in sel] + [[5, r["case"][1]] for r in sel]) if sel else []
    cli = run_.cli(progs) if progs else []
    n_e2e_dis = 0
    for n, (r, prog, lo, (acc, msg)) in enumerate(zip(sel, progs, low, cli)):
        ctx.count("e2e " + ("accepted" if acc else "rejected"))
        c = r["case"]
        why = None
        if isinstance(lo, list) and len(lo) == 1 and lo[0] > 0 and not acc:
            pass        # rejected before `g` got a type: nothing to compare
        elif not (isinstance(lo, list) and len(lo) == 3 and isinstance(lo[1], list) and len(lo[1]) == 2 and not has_other(lo)):
            why = "lowering did not produce two Int/Nat refinement types: %s" % (lo,)
        else:
            # the sugar: predicates and base types the front end built == what the model's constructors build
            mp, mq = mshape[n], mshape[len(sel) + n]
            if canon(lo[1][1]) != canon(mp) or canon(lo[2][1]) != canon(mq) or lo[1][0] != c[2] or lo[2][0] != c[3]:
                why = "front end built %s{%s} / %s{%s}, model's constructors build %s{%s} / %s{%s}" % (
                    lo[1][0], show(lo[1][1]), lo[2][0], show(lo[2][1]), c[2], show(mp), c[3], show(mq))
            elif acc != (lo[0] == 0):
                why = "`erg check` says %s, in-process lowering reports %d errors" % (acc, lo[0])
        if acc and ((r.get("implied") is False and not r["known"]) or
                    (r.get("implied_src") is False and not r["known"] and not r.get("known_src"))):
            r = dict(r, impl=1)
            if r["case"] not in [b["case"] for b in bad]:
                n_bad += 1
                bad.append(r)
        elif why or acc != bool(r["impl"]):
            n_e2e_dis += 1
            disagreeing.append(c)
            first_dis = first_dis or {"program": prog, "cli_accepts": acc, "subtype_of": r["impl"], "model": r["model"], "detail": why, "cli_output": msg}
    ctx.cov["e2e_programs"] = len(sel)

    # ---- verdict
    if not bad and (n_dis or n_e2e_dis or not proof.ok):
        # the tie is broken but no generated pair fails the judge: look harder before saying so
        bad = escalate(ctx, run_, disagreeing)
    for r in bad[:3]:
        small = shrink_case(run_, r["case"], failing)
        rr = run_.decide([small])[0]
        if not failing(rr):
            rr = r
        ctx.violation("failing-input", describe(rr),
                      case={"case": rr["case"], "sub": "{I: %s | %s}" % ("Nat" if rr["case"][2] else "Int", show(rr["P"])),
                            "sup": "{I: %s | %s}" % ("Nat" if rr["case"][3] else "Int", show(rr["Q"])), "program": program(rr["case"]),
                            "encoding": "case = (tree_sub tree_sup base_sub base_sup); base 0 Int 1 Nat; trees as in C32 plus 13 = interval (op a b)"},
                      impl={"subtype_of": rr["impl"]}, model={"sub_refine": rr["model"]},
                      judge={"implied": rr["implied"], "counterexample": rr["cex"],
                             "implied_by_meaning_of_the_expressions": rr.get("implied_src"), "counterexample_by_meaning": rr.get("cex_src")})
    if not bad and (n_dis or n_e2e_dis or n_foreign or n_panic or not proof.ok):
        what = []
        if not proof.ok:
            what.append("theorem(s) no longer check: " + proof.summary())
        if n_dis:
            what.append("%d pairs on which Context::subtype_of and the model differ under every order oracle; no accepted pair fails the implication judge" % n_dis)
        if n_e2e_dis:
            what.append("%d end-to-end programs on which `erg check`, the lowering or the model differ" % n_e2e_dis)
        if n_foreign:
            what.append("%d pairs built predicates outside the modelled enum fragment" % n_foreign)
        if n_panic:
            what.append("%d pairs panic" % n_panic)
        ctx.violation("broken-correspondence" if (n_dis or n_e2e_dis or n_foreign or n_panic) else "broken-theorem", "; ".join(what),
                      case=first_dis, theorem=proof.summary() or None, no_input=True)

    # ---- known findings: report those whose witness still reproduces
    for e in known_entries():
        if e.get("property") != "C03" or e.get("status") != "finding":
            continue
        r = run_.decide([e["witness"]["case"]])[0]
        if unsound(r) and r["known"]:
            ctx.known_finding(e)
        else:
            ctx.notes.append("NOTE stale-known-finding %s: witness no longer reproduces (accepted=%s implied=%s in-class=%s)" % (
                e.get("id"), r["impl"], r.get("implied"), r.get("known")))
            print("NOTE stale-known-finding property=C03 %s" % e.get("id"))


def replay(ctx, path):
    r = json.load(open(path))
    run_ = Run(ctx)
    case = r["case"]["case"] if isinstance(r.get("case"), dict) and "case" in r["case"] else None
    if case is None:
        print("replay file names no concrete pair:", r.get("what"))
        return
    x = run_.decide([case])[0]
    print("sub  :", "{I: %s | %s}" % ("Nat" if case[2] else "Int", show(x["P"])) if x["impl"] is not None else x["panic"])
    print("sup  :", "{I: %s | %s}" % ("Nat" if case[3] else "Int", show(x["Q"])) if x["impl"] is not None else "")
    print("subtype_of:", x["impl"], " model:", x["model"], "(oracle %d)" % x["oracle"])
    print("judge: implied=%s counterexample=%s known-class=%s" % (x.get("implied"), x.get("cex"), x.get("known")))
    prog = program(case)
    if prog:
        acc, msg = run_.cli([prog])[0]
        print("erg check `%s`: %s" % (prog, "accepted" if acc else "rejected"))
    print("judge on the meaning of the two expressions: implied=%s counterexample=%s" % (x.get("implied_src"), x.get("cex_src")))
    if failing(x):
        ctx.violation("failing-input", describe(x), case=r["case"], impl={"subtype_of": x["impl"]}, model={"sub_refine": x["model"]},
                      judge={"implied": x["implied"], "counterexample": x["cex"]})
